#!/usr/bin/env python3
"""Generate the prompts of a round of independently written breaking changes.
usage: tools/mkseedprompts.py <round N> <theme file>   (theme: the paragraph that says what kind of change is wanted)
Writes /tmp/seeded<N>/prompt_<ID>.txt and creates the scratch worktrees /tmp/wt<N>/<ID> of /repo.
Each prompt carries the property text, the workspace rules, the deliverables, the summaries of
all earlier changes for that property (seeded/<ID>*/meta.json) and the theme. The sub-agents get
nothing from /verif."""
import json, os, subprocess, sys, glob
n = int(sys.argv[1]); theme = open(sys.argv[2]).read().strip()
root = os.path.dirname(os.path.abspath(__file__))
tmpl = open(os.path.join(root, "seed_prompt_template.txt")).read()
head_end = tmpl.index('## The property'); ws_start = tmpl.index('## Your workspace'); tail_start = tmpl.index('## Important: this is a FOURTH round')
for l in open(os.path.join(root, "..", "properties.jsonl")):
    d = json.loads(l); pid = d['id']
    body = tmpl[ws_start:tail_start].replace('/tmp/wt4/C12', '/tmp/wt%d/%s' % (n, pid)).replace('/tmp/seeded4/C12', '/tmp/seeded%d/%s' % (n, pid)).replace('demo_c12', 'demo_' + pid.lower()).replace('"property": "C12"', '"property": "%s"' % pid)
    body = body.replace("then `git stash` (or `git diff > patch; git checkout -- .`) and verify", "then `git diff > /tmp/seeded%d/%s/patch.diff; git checkout -- .` and verify" % (n, pid))
    prop = "## The property (%s: %s)\n%s\n\nQuantified over: %s\n\n" % (pid, d['title'], d['statement'], d['quantifier']['text'])
    earlier = []
    for m in sorted(glob.glob(os.path.join(root, "..", "seeded", pid + "*", "meta.json")), key=lambda p: (len(p), p)):
        earlier.append(json.load(open(m))['summary'][:260])
    tail = "## Important: round %d\nSeeded defects for this property already exist; yours must use a DIFFERENT mechanism and target a different clause or part of the quantifier than all of them. The earlier ones were:\n" % n
    for i, e in enumerate(earlier):
        tail += '%d. """%s"""\n' % (i + 1, e)
    tail += theme + "\n"
    tail += """It must be a genuine violation of the property as stated - not of something the statement leaves undefined (for example: the order of rules inside a salience tie is NOT defined; what happens when a collection is modified while forRange iterates it is NOT defined; how often a rule runs when its name is repeated in a selected list is NOT defined; how long a compile may take is NOT defined; whether the operand of && / || that cannot change the result is evaluated is NOT defined).
Also note: besides Test_lexer and Test_pligin, test Test_in_in in package test fails on the unchanged tree too (hidden behind the Test_lexer panic) - ignore it. Do not use `git stash` (the stash is shared between worktrees) - use `git diff > file; git checkout -- .; ...; git apply file` instead. Keep your shell output short (pipe long test output through tail). If your demo needs the race detector, say so in meta.json (demo_cmd with -race)."""
    os.makedirs('/tmp/seeded%d/%s' % (n, pid), exist_ok=True)
    open('/tmp/seeded%d/prompt_%s.txt' % (n, pid), 'w').write(tmpl[:head_end] + prop + body + tail)
    subprocess.run(['git', '-C', '/repo', 'worktree', 'add', '--detach', '/tmp/wt%d/%s' % (n, pid)], capture_output=True)
print("prompts in /tmp/seeded%d" % n)
