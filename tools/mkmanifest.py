#!/usr/bin/env python3
"""Regenerates MANIFEST.json from tools/claims.json (per-property level text) so that the
manifest stays valid and in step with what is claimed."""
import json, os, subprocess
ROOT = os.path.dirname(os.path.dirname(os.path.abspath(__file__)))
claims = json.load(open(os.path.join(ROOT, "tools", "claims.json")))
props = [json.loads(l) for l in open(os.path.join(ROOT, "properties.jsonl"))]
checks, na = [], []
for p in props:
    pid = p["id"]
    c = claims.get(pid)
    if not c or not c.get("claimed"):
        na.append({"property_id": pid, "reason": (c or {}).get("reason", "check not built yet (work in progress; see DESIGN.md section 4 for the planned generator and oracle)")})
        continue
    checks.append({
        "property_id": pid,
        "quick_cmd": "./vcheck run %s --tier quick" % pid,
        "thorough_cmd": "./vcheck run %s --tier thorough" % pid,
        "evidence_file": "/verif/evidence/%s.json" % pid,
        "replay_cmd_template": "./vcheck replay %s {path}" % pid,
        "engine": "rapid-harness",
        "level_claimed": {"category": c.get("category", "exploration"), "text": c["text"], "design_ref": c.get("design_ref", "DESIGN.md section 4, " + pid)},
        "level_note": c["note"],
        "technique": c["technique"],
    })
hooks_commits = []
try:
    out = subprocess.run(["git", "-C", "/repo", "log", "--format=%H %s"], capture_output=True, text=True).stdout
    for ln in out.splitlines():
        h, _, subj = ln.partition(" ")
        if subj.startswith("verif:"):
            hooks_commits.append(h)
except Exception:
    pass
m = {
    "version": 1,
    "setup_cmd": "./vcheck setup",
    "hooks": {
        "guard": "verif",
        "enable": "go test -c -tags verif (the harness module replaces github.com/bilibili/gengine with /repo)",
        "baseline_off_cmd": "cd /repo && GOFLAGS=-mod=mod GOPROXY=off GOSUMDB=off go test -vet=off -count=1 -timeout 25m ./...",
        "source_commits": hooks_commits,
        "add_only": True,
    },
    "engines": [{"name": "rapid-harness", "path": "/verif/harness", "serves_properties": [c["property_id"] for c in checks],
                 "kind_free_text": "Go test binary of property-based checks (pgregory.net/rapid v1.3.0: generated programs, rule sets, operation histories, schedules with owned gates) sharded over 16 processes by the python driver ./vcheck; reference interpreter and reference scheduling models as oracles"}],
    "checks": checks,
    "not_applicable": na,
    "notes": "Technique family: property-based testing / fuzzing. Each check states the listed property as an executable oracle over generated cases; see DESIGN.md. Exit 0 = held on everything explored, 1 = VIOLATION line with replay file, 2 = inconclusive (build failure, unreproducible timeout).",
}
json.dump(m, open(os.path.join(ROOT, "MANIFEST.json"), "w"), indent=1)
print("claimed:", [c["property_id"] for c in checks])
