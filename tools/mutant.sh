#!/bin/bash
# usage: tools/mutant.sh <ID> <file-relative-to-repo> <python-regex-or-literal old> <new> [count]
# Makes a scratch copy of /repo under /tmp, replaces the first occurrence (or [count]th)
# of <old> by <new> in <file>, runs the quick check of <ID> against the copy, removes the copy.
set -u
ID=$1; FILE=$2; OLD=$3; NEW=$4; NTH=${5:-1}; APPEND=${6:-}
D=$(mktemp -d /tmp/gmut.XXXXXX)
rsync -a --exclude .git /repo/ $D/
python3 - "$D/$FILE" "$OLD" "$NEW" "$NTH" <<'PY'
import sys
p,old,new,nth=sys.argv[1],sys.argv[2],sys.argv[3],int(sys.argv[4])
s=open(p).read()
idx=-1
for _ in range(nth):
    idx=s.find(old,idx+1)
    if idx<0:
        print("MUTANT: pattern not found"); sys.exit(3)
s=s[:idx]+new+s[idx+len(old):]
open(p,'w').write(s)
PY
rc=$?
if [ $rc -ne 0 ]; then rm -rf $D; exit 3; fi
if [ -n "$APPEND" ]; then printf '\n%s\n' "$APPEND" >> "$D/$FILE"; fi
(cd $D && GOFLAGS=-mod=mod GOPROXY=off GOSUMDB=off go build ./builder/... ./engine/... ./context/... ./internal/... ) || { echo "MUTANT does not compile"; rm -rf $D; exit 3; }
VERIF_REPO=$D VERIF_SCALE=${VERIF_SCALE:-1} /verif/vcheck run $ID --tier quick | grep -v '^  sig' | cut -c1-400
rc=${PIPESTATUS[0]}
rm -rf $D /verif/.build/alt-*.mod /verif/.build/alt-*.sum
# remove replay files produced by mutant runs
echo "mutant rc=$rc"
exit 0
