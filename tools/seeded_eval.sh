#!/bin/bash
# usage: tools/seeded_eval.sh <dir-with-patch.diff> <ID> [more IDs...]
# Runs the quick checks of the given properties against a scratch copy of /repo HEAD with
# the seeded change applied (equivalent to applying it in /repo and undoing it afterwards).
set -u
SD=$1; shift
export GOFLAGS=-mod=mod GOPROXY=off GOSUMDB=off GOTOOLCHAIN=local
D=$(mktemp -d /tmp/sev.XXXXXX)
git -C /repo archive HEAD | tar -x -C $D
(cd $D && patch -p1 --no-backup-if-mismatch < $SD/patch.diff >/dev/null) || { echo "PATCH FAILED"; rm -rf $D; exit 1; }
for ID in "$@"; do
  VERIF_REPO=$D timeout 1500 /verif/vcheck run $ID --tier ${TIER:-quick} 2>/dev/null | grep -v '^  sig' | cut -c1-300 | tail -4
  echo "  -> $ID rc=${PIPESTATUS[0]}"
done
rm -rf $D /verif/.build/alt-*.mod /verif/.build/alt-*.sum /verif/.build/replays-alt
