#!/bin/bash
# usage: tools/seeded_verify.sh <dir-with-patch.diff-demo_test.go> [--suite]
# Confirms a seeded change independently: applies to a scratch copy of /repo HEAD, builds,
# optionally runs the repository suite, runs the demo with and without the change.
set -u
SD=$1; SUITE=${2:-}
export GOFLAGS=-mod=mod GOPROXY=off GOSUMDB=off GOTOOLCHAIN=local
D=$(mktemp -d /tmp/sver.XXXXXX)
git -C /repo archive HEAD | tar -x -C $D
mkdir -p $D/test/demo_seed && cp $SD/demo_test.go $D/test/demo_seed/
echo "--- demo on unchanged tree"
(cd $D && go test -vet=off -count=1 -timeout 10m ./test/demo_seed/ 2>&1 | tail -3)
echo "--- apply patch"
(cd $D && git init -q . 2>/dev/null; patch -p1 --no-backup-if-mismatch < $SD/patch.diff | tail -3) || { echo "PATCH FAILED"; rm -rf $D; exit 1; }
(cd $D && go build ./builder/... ./engine/... ./context/... ./internal/... ) || { echo "DOES NOT COMPILE"; rm -rf $D; exit 1; }
echo "--- demo with change"
(cd $D && go test -vet=off -count=1 -timeout 10m ./test/demo_seed/ 2>&1 | tail -3)
if [ "$SUITE" = "--suite" ]; then
  echo "--- repository suite with change"
  (cd $D && rm -rf test/demo_seed && go test -vet=off -count=1 -timeout 25m -json ./... 2>/dev/null > $D/suite.json; python3 - $D/suite.json <<'PY'
import json,sys
res={}
for l in open(sys.argv[1]):
    try: e=json.loads(l)
    except: continue
    if e.get('Test') and e.get('Action') in ('pass','fail','skip'):
        res[e['Package']+'::'+e['Test']]=e['Action']
base=json.load(open('/root/.vp/BASELINE.json'))
bad=[t for t in base['stable_pass'] if res.get(t)!='pass']
print('suite: pass',sum(1 for v in res.values() if v=='pass'),'baseline tests not passing:',bad)
PY
)
fi
rm -rf $D
