// Package ref is the reference interpreter of the rule language: the statements of
// properties C01-C03 written as Go code. It does not import gengine. Host data (injected
// structs, containers, functions) is accessed through package reflect on the harness' own
// copy of the world.
package ref

import (
	"fmt"
	"math"
	"reflect"
	"strings"

	"verif/dsl"
)

// Val is a DSL value: class + payload.
type Val struct {
	C byte // 'i' int, 'u' uint, 'f' float, 's' string, 'b' bool, 'o' opaque host object, 'z' no value
	I int64
	U uint64
	F float64
	S string
	B bool
	O reflect.Value
}

func (v Val) String() string {
	switch v.C {
	case 'i':
		return fmt.Sprintf("int(%d)", v.I)
	case 'u':
		return fmt.Sprintf("uint(%d)", v.U)
	case 'f':
		return fmt.Sprintf("float(%v)", v.F)
	case 's':
		return fmt.Sprintf("string(%q)", v.S)
	case 'b':
		return fmt.Sprintf("bool(%v)", v.B)
	case 'o':
		if v.O.IsValid() {
			return fmt.Sprintf("host(%s)", v.O.Type())
		}
		return "host(?)"
	}
	return "novalue"
}

func IntV(i int64) Val     { return Val{C: 'i', I: i} }
func UintV(u uint64) Val   { return Val{C: 'u', U: u} }
func FloatV(f float64) Val { return Val{C: 'f', F: f} }
func StrV(s string) Val    { return Val{C: 's', S: s} }
func BoolV(b bool) Val     { return Val{C: 'b', B: b} }

// FromReflect classifies a Go value.
func FromReflect(rv reflect.Value) Val {
	if !rv.IsValid() {
		return Val{C: 'z'}
	}
	switch rv.Kind() {
	case reflect.Int, reflect.Int8, reflect.Int16, reflect.Int32, reflect.Int64:
		return IntV(rv.Int())
	case reflect.Uint, reflect.Uint8, reflect.Uint16, reflect.Uint32, reflect.Uint64:
		return UintV(rv.Uint())
	case reflect.Float32, reflect.Float64:
		return FloatV(rv.Float())
	case reflect.String:
		return StrV(rv.String())
	case reflect.Bool:
		return BoolV(rv.Bool())
	}
	return Val{C: 'o', O: rv}
}

// FromInterface classifies a value read from gengine's result map.
func FromInterface(x interface{}) Val {
	if x == nil {
		return Val{C: 'z'}
	}
	return FromReflect(reflect.ValueOf(x))
}

// Same compares two values by class and numeric value (NaN equals NaN).
func Same(a, b Val) bool {
	if a.C != b.C {
		return false
	}
	switch a.C {
	case 'i':
		return a.I == b.I
	case 'u':
		return a.U == b.U
	case 'f':
		return a.F == b.F || (math.IsNaN(a.F) && math.IsNaN(b.F))
	case 's':
		return a.S == b.S
	case 'b':
		return a.B == b.B
	case 'o':
		if !a.O.IsValid() || !b.O.IsValid() {
			return a.O.IsValid() == b.O.IsValid()
		}
		return a.O.Type() == b.O.Type()
	}
	return true
}

func (v Val) numeric() bool { return v.C == 'i' || v.C == 'u' || v.C == 'f' }

// Error classes of the reference semantics (only error-ness is compared with gengine).
type Err struct {
	Class string // "type", "divzero", "missing", "index", "nil", "call", "panic", "control", "loop-limit", "assign"
	Msg   string
}

func (e *Err) Error() string { return e.Class + ": " + e.Msg }

func errf(class, f string, a ...interface{}) *Err { return &Err{Class: class, Msg: fmt.Sprintf(f, a...)} }

// Env is the state of one rule execution.
type Env struct {
	Inj    map[string]reflect.Value // injected names (as given to DataContext.Add)
	Locals map[string]Val
	Rule   *dsl.Rule
	// MayErr is set when the reference accepts both "error" and the computed outcome
	// (undecided operand of && / || failing while the other operand decides).
	MayErr bool
	// Unspecified is set when the program left the domain the properties speak about
	// (non-representable store, cross-class container store, step budget): the case is
	// then not compared.
	Unspecified string
	Steps       int
	MaxSteps    int
	// NextMapKey supplies the iteration order of forRange over a map (taken from the
	// observed run). nil: Go's own MapKeys order.
	NextMapKey func(loop int, remaining []reflect.Value) (reflect.Value, bool)
	// MaxLoop is the for-loop iteration cut-off (C09); 0 = none.
	MaxLoop int
	// Note, if set, is told about interesting control-flow events (classification only).
	Note      func(string)
	loopDepth int
	blkDepth  int
	ranged    []uintptr // maps currently being ranged over (forRange)
	// OnBin, if set, observes the operand values of every arithmetic / comparison.
	OnBin func(op string, l, r Val)
}

func NewEnv(inj map[string]interface{}, r *dsl.Rule) *Env {
	e := &Env{Inj: map[string]reflect.Value{}, Locals: map[string]Val{}, Rule: r, MaxSteps: 20000}
	for k, v := range inj {
		e.Inj[k] = reflect.ValueOf(v)
	}
	return e
}

func (e *Env) isInjected(name string) bool { _, ok := e.Inj[name]; return ok }

func (e *Env) unspecified(why string) {
	if e.Unspecified == "" {
		e.Unspecified = why
	}
}

// ---------------------------------------------------------------------------------
// name resolution and host access
// ---------------------------------------------------------------------------------

func field(obj reflect.Value, name string) (reflect.Value, *Err) {
	if !obj.IsValid() {
		return reflect.Value{}, errf("nil", "field %s of nothing", name)
	}
	if obj.Kind() == reflect.Ptr {
		if obj.IsNil() {
			return reflect.Value{}, errf("nil", "field %s through nil pointer", name)
		}
		obj = obj.Elem()
	}
	if obj.Kind() != reflect.Struct {
		return reflect.Value{}, errf("type", "field %s of non-struct %s", name, obj.Kind())
	}
	f := obj.FieldByName(name)
	if !f.IsValid() {
		return reflect.Value{}, errf("missing", "no field %s", name)
	}
	return f, nil
}

// lookupRoot resolves the first path component: injected table first, then locals.
func (e *Env) lookupRoot(name string) (reflect.Value, Val, bool) {
	if v, ok := e.Inj[name]; ok {
		return v, Val{}, true
	}
	if v, ok := e.Locals[name]; ok {
		if v.C == 'o' {
			return v.O, v, true
		}
		return reflect.Value{}, v, true
	}
	return reflect.Value{}, Val{}, false
}

// getVar reads a | a.b | a.b.c.
func (e *Env) getVar(path string) (Val, *Err) {
	parts := strings.Split(path, ".")
	if len(parts) == 1 {
		if v, ok := e.Inj[path]; ok {
			return FromReflect(v), nil
		}
		if v, ok := e.Locals[path]; ok {
			return v, nil
		}
		return Val{}, errf("missing", "variable %s not found", path)
	}
	if len(parts) > 3 {
		return Val{}, errf("missing", "path %s too deep", path)
	}
	rv, lv, ok := e.lookupRoot(parts[0])
	if !ok {
		return Val{}, errf("missing", "variable %s not found", parts[0])
	}
	if !rv.IsValid() {
		return Val{}, errf("type", "field access on %s", lv)
	}
	cur := rv
	for _, p := range parts[1:] {
		f, err := field(cur, p)
		if err != nil {
			return Val{}, err
		}
		cur = f
	}
	return FromReflect(cur), nil
}

// ---------------------------------------------------------------------------------
// conversions (C03)
// ---------------------------------------------------------------------------------

const (
	convOK = iota
	convType
	convUnspec
)

func isIntKind(k reflect.Kind) bool   { return k >= reflect.Int && k <= reflect.Int64 }
func isUintKind(k reflect.Kind) bool  { return k >= reflect.Uint && k <= reflect.Uint64 }
func isFloatKind(k reflect.Kind) bool { return k == reflect.Float32 || k == reflect.Float64 }

func kindBits(k reflect.Kind) uint {
	switch k {
	case reflect.Int8, reflect.Uint8:
		return 8
	case reflect.Int16, reflect.Uint16:
		return 16
	case reflect.Int32, reflect.Uint32:
		return 32
	}
	return 64
}

// Convert turns a DSL value into a Go value of type t following C03: within the numeric
// class always (when representable), across classes only if cross is true.
func Convert(v Val, t reflect.Type, cross bool) (reflect.Value, int) {
	k := t.Kind()
	out := reflect.New(t).Elem()
	switch {
	case isIntKind(k):
		bits := kindBits(k)
		var x int64
		switch v.C {
		case 'i':
			x = v.I
		case 'u':
			if !cross {
				return out, convUnspec
			}
			if v.U > math.MaxInt64 {
				return out, convUnspec
			}
			x = int64(v.U)
		case 'f':
			if !cross {
				return out, convUnspec
			}
			if v.F != math.Trunc(v.F) || v.F >= 9.2e18 || v.F <= -9.2e18 || math.IsNaN(v.F) {
				return out, convUnspec
			}
			x = int64(v.F)
		default:
			return out, convType
		}
		if bits < 64 && (x < -(1<<(bits-1)) || x > (1<<(bits-1))-1) {
			return out, convUnspec
		}
		out.SetInt(x)
		return out, convOK
	case isUintKind(k):
		bits := kindBits(k)
		var x uint64
		switch v.C {
		case 'u':
			x = v.U
		case 'i':
			if !cross || v.I < 0 {
				return out, convUnspec
			}
			x = uint64(v.I)
		case 'f':
			if !cross {
				return out, convUnspec
			}
			if v.F != math.Trunc(v.F) || v.F < 0 || v.F >= 1.8e19 || math.IsNaN(v.F) {
				return out, convUnspec
			}
			x = uint64(v.F)
		default:
			return out, convType
		}
		if bits < 64 && x > (1<<bits)-1 {
			return out, convUnspec
		}
		out.SetUint(x)
		return out, convOK
	case isFloatKind(k):
		var x float64
		lim := float64(1 << 53)
		if k == reflect.Float32 {
			lim = float64(1 << 24)
		}
		switch v.C {
		case 'f':
			x = v.F
			if k == reflect.Float32 && !math.IsNaN(x) && !math.IsInf(x, 0) && math.IsInf(float64(float32(x)), 0) {
				// out of float32's range; inside the range the value is rounded to the nearest
				// float32 as every Go conversion does
				return out, convUnspec
			}
		case 'i':
			if !cross || float64(v.I) > lim || float64(v.I) < -lim {
				return out, convUnspec
			}
			x = float64(v.I)
		case 'u':
			if !cross || float64(v.U) > lim {
				return out, convUnspec
			}
			x = float64(v.U)
		default:
			return out, convType
		}
		out.SetFloat(x)
		return out, convOK
	case k == reflect.String:
		if v.C != 's' {
			return out, convType
		}
		out.SetString(v.S)
		return out, convOK
	case k == reflect.Bool:
		if v.C != 'b' {
			return out, convType
		}
		out.SetBool(v.B)
		return out, convOK
	}
	if v.C == 'o' && v.O.IsValid() && v.O.Type().AssignableTo(t) {
		return v.O, convOK
	}
	return out, convType
}

// ---------------------------------------------------------------------------------
// expressions (C01)
// ---------------------------------------------------------------------------------

func (e *Env) Eval(x *dsl.Expr) (Val, *Err) {
	e.Steps++
	if e.Steps > e.MaxSteps {
		e.unspecified("step budget")
		return Val{}, errf("budget", "step budget")
	}
	switch x.K {
	case dsl.KInt:
		return IntV(x.I), nil
	case dsl.KReal:
		return FloatV(x.F), nil
	case dsl.KStr:
		return StrV(x.S), nil
	case dsl.KBool:
		return BoolV(x.B), nil
	case dsl.KAtName:
		return StrV(e.Rule.Name), nil
	case dsl.KAtID:
		return IntV(e.Rule.ID()), nil
	case dsl.KAtDesc:
		if e.Rule.HasDesc {
			return StrV(e.Rule.Desc), nil
		}
		return StrV(""), nil
	case dsl.KAtSal:
		if e.Rule.HasSal {
			return IntV(e.Rule.Sal), nil
		}
		return IntV(0), nil
	case dsl.KVar:
		return e.getVar(x.Name)
	case dsl.KIndex:
		rv, err := e.index(x)
		if err != nil {
			return Val{}, err
		}
		return FromReflect(rv), nil
	case dsl.KCall:
		return e.call(x)
	case dsl.KNot:
		v, err := e.Eval(x.L)
		if err != nil {
			return Val{}, err
		}
		if v.C != 'b' {
			return Val{}, errf("type", "! applied to %s", v)
		}
		return BoolV(!v.B), nil
	case dsl.KBin:
		switch dsl.Prec(x.Op) {
		case 1:
			return e.logic(x)
		case 2:
			l, err := e.Eval(x.L)
			if err != nil {
				return Val{}, err
			}
			r, err := e.Eval(x.R)
			if err != nil {
				return Val{}, err
			}
			if e.OnBin != nil {
				e.OnBin(x.Op, l, r)
			}
			return Compare(x.Op, l, r)
		default:
			l, err := e.Eval(x.L)
			if err != nil {
				return Val{}, err
			}
			r, err := e.Eval(x.R)
			if err != nil {
				return Val{}, err
			}
			if e.OnBin != nil {
				e.OnBin(x.Op, l, r)
			}
			return Arith(x.Op, l, r)
		}
	}
	return Val{}, errf("type", "unknown expression kind %s", x.K)
}

func (e *Env) logic(x *dsl.Expr) (Val, *Err) {
	l, lerr := e.Eval(x.L)
	if lerr != nil {
		return Val{}, lerr
	}
	r, rerr := e.Eval(x.R)
	if l.C != 'b' {
		return Val{}, errf("type", "%s applied to %s", x.Op, l)
	}
	decided := (x.Op == "&&" && !l.B) || (x.Op == "||" && l.B)
	if rerr != nil || r.C != 'b' {
		if decided {
			// the statement does not say whether the undecided operand is evaluated
			e.MayErr = true
			return BoolV(l.B), nil
		}
		if rerr != nil {
			return Val{}, rerr
		}
		return Val{}, errf("type", "%s applied to %s", x.Op, r)
	}
	if x.Op == "&&" {
		return BoolV(l.B && r.B), nil
	}
	return BoolV(l.B || r.B), nil
}

// MaxStrLen bounds string values in reference runs (a guard against programs that double a
// string inside nested loops); beyond it the program is reported as out of budget.
const MaxStrLen = 1 << 16

// Arith implements + - * / of C01.
func Arith(op string, l, r Val) (Val, *Err) {
	if l.C == 's' && r.C == 's' && op == "+" {
		if len(l.S)+len(r.S) > MaxStrLen {
			return Val{}, errf("budget", "string longer than %d bytes", MaxStrLen)
		}
		return StrV(l.S + r.S), nil
	}
	if !l.numeric() || !r.numeric() {
		return Val{}, errf("type", "%s between %s and %s", op, l, r)
	}
	if op == "/" {
		if (r.C == 'i' && r.I == 0) || (r.C == 'u' && r.U == 0) || (r.C == 'f' && r.F == 0) {
			return Val{}, errf("divzero", "division by zero")
		}
	}
	if l.C == 'f' || r.C == 'f' {
		a, b := toF(l), toF(r)
		switch op {
		case "+":
			return FloatV(a + b), nil
		case "-":
			return FloatV(a - b), nil
		case "*":
			return FloatV(a * b), nil
		default:
			return FloatV(a / b), nil
		}
	}
	if l.C == 'u' && r.C == 'u' {
		a, b := l.U, r.U
		switch op {
		case "+":
			return UintV(a + b), nil
		case "-":
			return UintV(a - b), nil
		case "*":
			return UintV(a * b), nil
		default:
			return UintV(a / b), nil
		}
	}
	a, b := toI(l), toI(r)
	switch op {
	case "+":
		return IntV(a + b), nil
	case "-":
		return IntV(a - b), nil
	case "*":
		return IntV(a * b), nil
	default:
		if b == -1 {
			return IntV(-a), nil // wraps for MinInt64
		}
		return IntV(a / b), nil
	}
}

func toF(v Val) float64 {
	switch v.C {
	case 'i':
		return float64(v.I)
	case 'u':
		return float64(v.U)
	}
	return v.F
}

func toI(v Val) int64 {
	if v.C == 'u' {
		return int64(v.U)
	}
	return v.I
}

// Compare implements the six comparison operators of C01.
func Compare(op string, l, r Val) (Val, *Err) {
	var c int // -1, 0, 1 ; 2 = unordered (NaN)
	switch {
	case l.C == 's' && r.C == 's':
		c = strings.Compare(l.S, r.S)
	case l.numeric() && r.numeric():
		if l.C == 'f' || r.C == 'f' {
			a, b := toF(l), toF(r)
			switch {
			case a < b:
				c = -1
			case a > b:
				c = 1
			case a == b:
				c = 0
			default:
				c = 2
			}
		} else {
			c = cmpInt(l, r)
		}
	case l.C == 'b' && r.C == 'b':
		if op != "==" && op != "!=" {
			return Val{}, errf("type", "%s between booleans", op)
		}
		if l.B == r.B {
			c = 0
		} else {
			c = 1
		}
	default:
		return Val{}, errf("type", "%s between %s and %s", op, l, r)
	}
	switch op {
	case "==":
		return BoolV(c == 0), nil
	case "!=":
		return BoolV(c != 0), nil
	case "<":
		return BoolV(c == -1), nil
	case ">":
		return BoolV(c == 1), nil
	case "<=":
		return BoolV(c == -1 || c == 0), nil
	case ">=":
		return BoolV(c == 1 || c == 0), nil
	}
	return Val{}, errf("type", "unknown comparison %s", op)
}

// cmpInt compares two integers exactly over the union of the int64 and uint64 ranges.
func cmpInt(l, r Val) int {
	if l.C == 'i' && r.C == 'i' {
		switch {
		case l.I < r.I:
			return -1
		case l.I > r.I:
			return 1
		}
		return 0
	}
	if l.C == 'u' && r.C == 'u' {
		switch {
		case l.U < r.U:
			return -1
		case l.U > r.U:
			return 1
		}
		return 0
	}
	if l.C == 'i' { // r is uint
		if l.I < 0 {
			return -1
		}
		return cmpInt(UintV(uint64(l.I)), r)
	}
	return -cmpInt(r, l)
}

// ---------------------------------------------------------------------------------
// containers
// ---------------------------------------------------------------------------------

// container resolves the container named by an index expression, dereferencing one
// pointer level (maps, slices and arrays can be injected by pointer).
func (e *Env) container(name string) (reflect.Value, *Err) {
	return e.containerD(name, true)
}

func (e *Env) containerD(name string, deref bool) (reflect.Value, *Err) {
	var cv reflect.Value
	if strings.Contains(name, ".") {
		v, err := e.getVar(name)
		if err != nil {
			return reflect.Value{}, err
		}
		if v.C != 'o' {
			return reflect.Value{}, errf("type", "indexing %s", v)
		}
		cv = v.O
	} else {
		rv, lv, ok := e.lookupRoot(name)
		if !ok {
			return reflect.Value{}, errf("missing", "container %s not found", name)
		}
		if !rv.IsValid() {
			return reflect.Value{}, errf("type", "indexing %s", lv)
		}
		cv = rv
	}
	if cv.Kind() == reflect.Ptr {
		if !deref {
			// forRange over a pointer-injected container: not covered by the statement
			e.unspecified("forRange over a pointer")
			return reflect.Value{}, errf("unspec", "forRange over pointer")
		}
		if cv.IsNil() {
			return reflect.Value{}, errf("nil", "indexing through nil pointer")
		}
		cv = cv.Elem()
	}
	switch cv.Kind() {
	case reflect.Map, reflect.Slice, reflect.Array:
		return cv, nil
	}
	return reflect.Value{}, errf("type", "indexing a %s", cv.Kind())
}

func (e *Env) keyVal(k *dsl.Expr) (Val, *Err) {
	switch k.K {
	case dsl.KInt:
		return IntV(k.I), nil
	case dsl.KStr:
		return StrV(k.S), nil
	case dsl.KVar:
		return e.getVar(k.Name)
	}
	return Val{}, errf("type", "bad key expression")
}

// mapKey converts a key value to the map's key type: within the numeric class only.
func (e *Env) mapKey(kv Val, kt reflect.Type) (reflect.Value, *Err) {
	rk, st := Convert(kv, kt, false)
	switch st {
	case convType:
		return rk, errf("type", "key %s for map key type %s", kv, kt)
	case convUnspec:
		e.unspecified("cross-class or out-of-range map key")
		return rk, errf("unspec", "key")
	}
	return rk, nil
}

func (e *Env) sliceIndex(kv Val, n int) (int, *Err) {
	var i int64
	switch kv.C {
	case 'i':
		i = kv.I
	case 'u':
		e.unspecified("unsigned slice index")
		return 0, errf("unspec", "index")
	default:
		return 0, errf("type", "slice index %s", kv)
	}
	if i < 0 || i >= int64(n) {
		return 0, errf("index", "index %d out of range [0,%d)", i, n)
	}
	return int(i), nil
}

// index reads name[key]: the element, or the zero value for a missing map key.
func (e *Env) index(x *dsl.Expr) (reflect.Value, *Err) {
	cv, err := e.container(x.Name)
	if err != nil {
		return reflect.Value{}, err
	}
	kv, err := e.keyVal(x.Key)
	if err != nil {
		return reflect.Value{}, err
	}
	if cv.Kind() == reflect.Map {
		if cv.IsNil() {
			return reflect.Zero(cv.Type().Elem()), nil
		}
		rk, err := e.mapKey(kv, cv.Type().Key())
		if err != nil {
			return reflect.Value{}, err
		}
		mv := cv.MapIndex(rk)
		if !mv.IsValid() {
			return reflect.Zero(cv.Type().Elem()), nil
		}
		return mv, nil
	}
	i, err := e.sliceIndex(kv, cv.Len())
	if err != nil {
		return reflect.Value{}, err
	}
	return cv.Index(i), nil
}

// ---------------------------------------------------------------------------------
// calls
// ---------------------------------------------------------------------------------

func (e *Env) call(x *dsl.Expr) (v Val, rerr *Err) {
	parts := strings.Split(x.Name, ".")
	var fn reflect.Value
	switch len(parts) {
	case 1:
		rv, lv, ok := e.lookupRoot(parts[0])
		if !ok {
			return Val{}, errf("missing", "function %s not found", x.Name)
		}
		if !rv.IsValid() || rv.Kind() != reflect.Func {
			return Val{}, errf("type", "calling non-function %s %s", x.Name, lv)
		}
		fn = rv
	case 2, 3:
		rv, _, ok := e.lookupRoot(parts[0])
		if !ok {
			return Val{}, errf("missing", "object %s not found", parts[0])
		}
		if !rv.IsValid() {
			return Val{}, errf("type", "method call on a scalar")
		}
		obj := rv
		if len(parts) == 3 {
			f, err := field(rv, parts[1])
			if err != nil {
				return Val{}, err
			}
			obj = f
		}
		if (obj.Kind() == reflect.Ptr || obj.Kind() == reflect.Interface) && obj.IsNil() {
			// a method on a nil pointer may or may not panic; treat as nil fault
			m := obj.MethodByName(parts[len(parts)-1])
			if !m.IsValid() {
				return Val{}, errf("missing", "method %s not found", x.Name)
			}
			fn = m
		} else {
			m := obj.MethodByName(parts[len(parts)-1])
			if !m.IsValid() {
				return Val{}, errf("missing", "method %s not found", x.Name)
			}
			fn = m
		}
	default:
		return Val{}, errf("missing", "call path too deep")
	}
	// arguments are evaluated left to right before the call
	args := make([]Val, len(x.Args))
	for i, a := range x.Args {
		av, err := e.Eval(a)
		if err != nil {
			return Val{}, err
		}
		args[i] = av
	}
	ft := fn.Type()
	if ft.IsVariadic() {
		e.unspecified("variadic function")
		return Val{}, errf("unspec", "variadic")
	}
	if ft.NumIn() != len(args) {
		return Val{}, errf("call", "%s takes %d arguments, %d given", x.Name, ft.NumIn(), len(args))
	}
	in := make([]reflect.Value, len(args))
	for i, a := range args {
		pt := ft.In(i)
		if pt.Kind() == reflect.Interface {
			if a.C == 'z' {
				e.unspecified("value-less expression passed as an argument")
				return Val{}, errf("unspec", "no value")
			} else {
				in[i] = reflect.ValueOf(toGo(a))
				if !in[i].Type().AssignableTo(pt) {
					return Val{}, errf("type", "argument %d of %s", i, x.Name)
				}
			}
			continue
		}
		cv, st := Convert(a, pt, true)
		switch st {
		case convType:
			return Val{}, errf("type", "argument %d of %s: %s for %s", i, x.Name, a, pt)
		case convUnspec:
			e.unspecified("argument not representable in parameter type")
			return Val{}, errf("unspec", "argument")
		}
		in[i] = cv
	}
	defer func() {
		if r := recover(); r != nil {
			v, rerr = Val{}, errf("panic", "%s panicked: %v", x.Name, r)
		}
	}()
	out := fn.Call(in)
	if len(out) == 0 {
		return Val{C: 'z'}, nil
	}
	return FromReflect(out[0]), nil
}

func toGo(v Val) interface{} {
	switch v.C {
	case 'i':
		return v.I
	case 'u':
		return v.U
	case 'f':
		return v.F
	case 's':
		return v.S
	case 'b':
		return v.B
	case 'o':
		if v.O.IsValid() && v.O.CanInterface() {
			return v.O.Interface()
		}
	}
	return nil
}

// ---------------------------------------------------------------------------------
// statements (C02) and stores (C03)
// ---------------------------------------------------------------------------------

// Control signals.
const (
	ctlNone = iota
	ctlBreak
	ctlContinue
	ctlReturn
)

// Outcome of a rule execution.
type Outcome struct {
	Returned bool
	Val      Val // value of `return <expr>`; C=='z' for a bare return
	Err      *Err
}

// Run executes the rule body.
func (e *Env) Run() Outcome {
	ctl, v, err := e.block(e.Rule.Body)
	if err != nil {
		return Outcome{Err: err}
	}
	switch ctl {
	case ctlReturn:
		return Outcome{Returned: true, Val: v}
	case ctlBreak, ctlContinue:
		return Outcome{Err: errf("control", "break/continue outside of a loop")}
	}
	return Outcome{}
}

func (e *Env) note(s string) {
	if e.Note != nil {
		e.Note(s)
	}
}

func (e *Env) block(b *dsl.Block) (int, Val, *Err) {
	if b == nil {
		return ctlNone, Val{}, nil
	}
	e.blkDepth++
	defer func() { e.blkDepth-- }()
	for i, s := range b.Stmts {
		ctl, v, err := e.stmt(s)
		if err != nil {
			return ctlNone, Val{}, err
		}
		if ctl != ctlNone {
			if ctl == ctlReturn && (i < len(b.Stmts)-1 || b.HasRet) {
				e.note("return-skips-later-statements")
			}
			return ctl, v, nil
		}
	}
	if b.HasRet && e.blkDepth >= 3 {
		e.note("return-from-depth>=2")
	}
	if b.HasRet {
		if b.Ret == nil {
			return ctlReturn, Val{C: 'z'}, nil
		}
		v, err := e.Eval(b.Ret)
		if err != nil {
			return ctlNone, Val{}, err
		}
		if v.C == 'z' {
			// a value-less expression (call without results) cannot be returned
			return ctlNone, Val{}, errf("type", "return of no value")
		}
		return ctlReturn, v, nil
	}
	return ctlNone, Val{}, nil
}

func (e *Env) cond(x *dsl.Expr) (bool, *Err) {
	v, err := e.Eval(x)
	if err != nil {
		return false, err
	}
	if v.C != 'b' {
		return false, errf("type", "condition is %s, not boolean", v)
	}
	return v.B, nil
}

func (e *Env) stmt(s *dsl.Stmt) (int, Val, *Err) {
	e.Steps++
	if e.Steps > e.MaxSteps {
		e.unspecified("step budget")
		return ctlNone, Val{}, errf("budget", "step budget")
	}
	switch s.K {
	case dsl.SAssign:
		return ctlNone, Val{}, e.assign(s)
	case dsl.SCall:
		_, err := e.call(s.Call)
		return ctlNone, Val{}, err
	case dsl.SBreak:
		return ctlBreak, Val{}, nil
	case dsl.SContinue:
		return ctlContinue, Val{}, nil
	case dsl.SIf:
		c, err := e.cond(s.Cond)
		if err != nil {
			return ctlNone, Val{}, err
		}
		if c {
			return e.block(s.Then)
		}
		for i := range s.ElseIfs {
			c, err := e.cond(s.ElseIfs[i].Cond)
			if err != nil {
				return ctlNone, Val{}, err
			}
			if c {
				e.note("else-if-branch-taken")
				if i < len(s.ElseIfs)-1 || s.Else != nil {
					e.note("else-if-taken-with-later-branches")
				}
				return e.block(s.ElseIfs[i].Body)
			}
		}
		if s.Else != nil {
			e.note("else-branch-taken")
			return e.block(s.Else)
		}
		return ctlNone, Val{}, nil
	case dsl.SFor:
		if err := e.assign(s.Init); err != nil {
			return ctlNone, Val{}, err
		}
		iter := 0
		for {
			iter++
			if e.MaxLoop > 0 && iter > e.MaxLoop {
				return ctlNone, Val{}, errf("loop-limit", "for loop exceeded %d iterations", e.MaxLoop)
			}
			c, err := e.cond(s.Cond)
			if err != nil {
				return ctlNone, Val{}, err
			}
			if !c {
				return ctlNone, Val{}, nil
			}
			e.loopDepth++
			ctl, v, err := e.block(s.Body)
			e.loopDepth--
			if err != nil {
				return ctlNone, Val{}, err
			}
			if ctl == ctlBreak {
				if e.loopDepth > 0 {
					e.note("break-in-inner-loop")
				}
				return ctlNone, Val{}, nil
			}
			if ctl == ctlReturn {
				return ctl, v, nil
			}
			if ctl == ctlContinue {
				e.note("continue-in-for")
			}
			if err := e.assign(s.Step); err != nil {
				return ctlNone, Val{}, err
			}
		}
	case dsl.SForRange:
		cv, err := e.containerD(s.Coll, false)
		if err != nil {
			return ctlNone, Val{}, err
		}
		var keys []reflect.Value
		if cv.Kind() == reflect.Map {
			keys = cv.MapKeys()
			e.ranged = append(e.ranged, cv.Pointer())
			defer func() { e.ranged = e.ranged[:len(e.ranged)-1] }()
		} else {
			for i := 0; i < cv.Len(); i++ {
				keys = append(keys, reflect.ValueOf(i))
			}
		}
		for len(keys) > 0 {
			var k reflect.Value
			if cv.Kind() == reflect.Map && e.NextMapKey != nil {
				kk, ok := e.NextMapKey(s.LoopID, keys)
				if !ok {
					return ctlNone, Val{}, errf("maporder", "observed run did not visit the remaining %d keys of loop %d", len(keys), s.LoopID)
				}
				k = kk
				found := false
				for i := range keys {
					if keys[i].Interface() == k.Interface() {
						keys = append(keys[:i:i], keys[i+1:]...)
						found = true
						break
					}
				}
				if !found {
					return ctlNone, Val{}, errf("maporder", "observed run visited key %v of loop %d twice or a key that is not in the map", k, s.LoopID)
				}
			} else {
				k = keys[0]
				keys = keys[1:]
			}
			if err := e.setSimple(s.KeyVar, FromReflect(k)); err != nil {
				return ctlNone, Val{}, err
			}
			e.loopDepth++
			ctl, v, err := e.block(s.Body)
			e.loopDepth--
			if err != nil {
				return ctlNone, Val{}, err
			}
			if ctl == ctlBreak {
				if e.loopDepth > 0 {
					e.note("break-in-inner-loop")
				}
				return ctlNone, Val{}, nil
			}
			if ctl == ctlReturn {
				return ctl, v, nil
			}
			if ctl == ctlContinue {
				e.note("continue-in-forrange")
			}
		}
		return ctlNone, Val{}, nil
	case dsl.SConc:
		// sequential reference: children are independent by construction
		var first *Err
		for _, k := range s.Kids {
			var err *Err
			if k.K == dsl.SAssign {
				err = e.assign(k)
			} else {
				_, err = e.call(k.Call)
			}
			if err != nil && first == nil {
				first = err
			}
		}
		return ctlNone, Val{}, first
	}
	return ctlNone, Val{}, errf("type", "unknown statement %s", s.K)
}

func (e *Env) assign(s *dsl.Stmt) *Err {
	v, err := e.Eval(s.Val)
	if err != nil {
		return err
	}
	if s.AOp != "=" && s.AOp != ":=" {
		cur, err := e.Eval(s.Target)
		if err != nil {
			return err
		}
		v, err = Arith(s.AOp[:1], cur, v)
		if err != nil {
			return err
		}
	}
	if v.C == 'z' {
		// assigning "no value" (call without results): unspecified by the properties
		e.unspecified("assignment of a value-less call")
		return errf("unspec", "no value")
	}
	t := s.Target
	if s.AOp != "=" && s.AOp != ":=" && (t.K == dsl.KIndex || strings.Contains(t.Name, ".") || e.isInjected(t.Name)) {
		e.note("compound-assignment-on-injected-target")
	}
	if t.K == dsl.KIndex {
		return e.setIndex(t, v)
	}
	if strings.Contains(t.Name, ".") {
		return e.setField(t.Name, v)
	}
	return e.setSimple(t.Name, v)
}

// setSimple assigns to a plain name: an injected name always refers to the injected
// object (writable only through a pointer), otherwise the rule local is bound.
func (e *Env) setSimple(name string, v Val) *Err {
	if inj, ok := e.Inj[name]; ok {
		if inj.Kind() != reflect.Ptr || inj.IsNil() {
			return errf("assign", "injected %s is not assignable", name)
		}
		el := inj.Elem()
		if v.C == 'o' {
			if v.O.IsValid() && v.O.Kind() == reflect.Ptr && !v.O.IsNil() {
				v = Val{C: 'o', O: v.O.Elem()}
				if c := FromReflect(v.O); c.C != 'o' {
					v = c
				}
			}
			if v.C == 'o' {
				if v.O.IsValid() && v.O.Type().AssignableTo(el.Type()) {
					el.Set(v.O)
					return nil
				}
				return errf("type", "store of %s into %s", v, el.Type())
			}
		}
		cv, st := Convert(v, el.Type(), true)
		switch st {
		case convType:
			return errf("type", "store of %s into %s", v, el.Type())
		case convUnspec:
			e.unspecified("store not representable")
			return errf("unspec", "store")
		}
		el.Set(cv)
		return nil
	}
	if v.C == 'o' && v.O.IsValid() && v.O.CanAddr() && v.O.CanInterface() {
		// a local is bound to the value, not to the storage it was read from: the slice /
		// map / pointer / struct value is copied (Go assignment semantics), so a later store
		// to the field or element it came from does not change the local
		v.O = reflect.ValueOf(v.O.Interface())
	}
	e.Locals[name] = v
	return nil
}

func (e *Env) setField(path string, v Val) *Err {
	parts := strings.Split(path, ".")
	if len(parts) > 3 {
		return errf("missing", "path too deep")
	}
	rv, lv, ok := e.lookupRoot(parts[0])
	if !ok {
		return errf("missing", "object %s not found", parts[0])
	}
	if !rv.IsValid() {
		return errf("type", "field store on %s", lv)
	}
	cur := rv
	for _, p := range parts[1 : len(parts)-1] {
		f, err := field(cur, p)
		if err != nil {
			return err
		}
		cur = f
	}
	f, err := field(cur, parts[len(parts)-1])
	if err != nil {
		return err
	}
	if !f.CanSet() {
		return errf("assign", "field %s is not assignable", path)
	}
	if v.C == 'o' {
		if v.O.IsValid() && v.O.Type().AssignableTo(f.Type()) {
			f.Set(v.O)
			return nil
		}
		return errf("type", "store of %s into %s", v, f.Type())
	}
	cv, st := Convert(v, f.Type(), true)
	switch st {
	case convType:
		return errf("type", "store of %s into field of type %s", v, f.Type())
	case convUnspec:
		e.unspecified("field store not representable")
		return errf("unspec", "store")
	}
	f.Set(cv)
	return nil
}

func (e *Env) setIndex(t *dsl.Expr, v Val) *Err {
	cv, err := e.container(t.Name)
	if err != nil {
		return err
	}
	kv, err := e.keyVal(t.Key)
	if err != nil {
		return err
	}
	et := cv.Type().Elem()
	var ev reflect.Value
	if v.C == 'o' {
		if !v.O.IsValid() || !v.O.Type().AssignableTo(et) {
			return errf("type", "store of %s into element type %s", v, et)
		}
		ev = v.O
	} else {
		c, st := Convert(v, et, false)
		switch st {
		case convType:
			return errf("type", "store of %s into element type %s", v, et)
		case convUnspec:
			e.unspecified("cross-class or out-of-range element store")
			return errf("unspec", "store")
		}
		ev = c
	}
	if cv.Kind() == reflect.Map {
		rk, err := e.mapKey(kv, cv.Type().Key())
		if err != nil {
			return err
		}
		if cv.IsNil() {
			return errf("nil", "store into nil map")
		}
		if !cv.MapIndex(rk).IsValid() {
			for _, p := range e.ranged {
				if p == cv.Pointer() {
					// the key set of a map that changes while it is ranged over is not defined
					e.unspecified("key inserted into a map while it is ranged over")
				}
			}
		}
		cv.SetMapIndex(rk, ev)
		return nil
	}
	i, err := e.sliceIndex(kv, cv.Len())
	if err != nil {
		return err
	}
	el := cv.Index(i)
	if !el.CanSet() {
		return errf("assign", "element of %s is not assignable", t.Name)
	}
	el.Set(ev)
	return nil
}
