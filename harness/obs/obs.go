// Package obs provides the observer used by every scheduling / history property:
// a globally sequenced event log fed by functions injected into rule bodies, and
// gates whose behaviour (free, yield, hold until released) is part of the generated case.
package obs

import (
	"fmt"
	"runtime"
	"sync"
	"sync/atomic"
	"time"
)

// Event is one observer call made from inside a rule body (or by the harness).
type Event struct {
	Seq  int    `json:"seq"`
	Kind string `json:"k"`
	Name string `json:"n"`
	Arg  int64  `json:"a,omitempty"`
}

func (e Event) String() string {
	if e.Arg != 0 {
		return fmt.Sprintf("%d:%s(%s,%d)", e.Seq, e.Kind, e.Name, e.Arg)
	}
	return fmt.Sprintf("%d:%s(%s)", e.Seq, e.Kind, e.Name)
}

// Log is an append-only, mutex protected, globally sequenced event list.
type Log struct {
	mu sync.Mutex
	ev []Event
}

func (l *Log) Add(kind, name string, arg int64) int {
	l.mu.Lock()
	n := len(l.ev)
	l.ev = append(l.ev, Event{Seq: n, Kind: kind, Name: name, Arg: arg})
	l.mu.Unlock()
	return n
}

func (l *Log) Len() int {
	l.mu.Lock()
	n := len(l.ev)
	l.mu.Unlock()
	return n
}

func (l *Log) Snapshot() []Event {
	l.mu.Lock()
	out := make([]Event, len(l.ev))
	copy(out, l.ev)
	l.mu.Unlock()
	return out
}

func (l *Log) Reset() {
	l.mu.Lock()
	l.ev = nil
	l.mu.Unlock()
}

// Gate modes.
const (
	Free  = 0 // return at once
	Yield = 1 // runtime.Gosched a few times
	Hold  = 2 // block until released by the controller
)

// Gates implements the injected gate(key) function.
type Gates struct {
	mu      sync.Mutex
	mode    map[string]int
	yields  map[string]int
	rel     map[string]chan struct{}
	arrived chan string
	parked  map[string]int
	inGate  int64 // number of goroutines currently inside a Hold gate
	maxIn   int64
	log     *Log
	closed  bool
}

func NewGates(l *Log) *Gates {
	return &Gates{mode: map[string]int{}, yields: map[string]int{}, rel: map[string]chan struct{}{}, parked: map[string]int{}, arrived: make(chan string, 4096), log: l}
}

// Set configures the behaviour of gate(key). For Yield, n is the number of yields.
func (g *Gates) Set(key string, mode, n int) {
	g.mu.Lock()
	g.mode[key] = mode
	g.yields[key] = n
	if mode == Hold {
		if _, ok := g.rel[key]; !ok {
			g.rel[key] = make(chan struct{})
		}
	}
	g.mu.Unlock()
}

// Enter is the body of the injected gate function.
func (g *Gates) Enter(key string) {
	g.mu.Lock()
	m := g.mode[key]
	n := g.yields[key]
	ch := g.rel[key]
	closed := g.closed
	g.mu.Unlock()
	switch m {
	case Yield:
		for i := 0; i < n; i++ {
			runtime.Gosched()
		}
	case Hold:
		if closed || ch == nil {
			return
		}
		c := atomic.AddInt64(&g.inGate, 1)
		for {
			old := atomic.LoadInt64(&g.maxIn)
			if c <= old || atomic.CompareAndSwapInt64(&g.maxIn, old, c) {
				break
			}
		}
		if g.log != nil {
			g.log.Add("G", key, 0)
		}
		g.mu.Lock()
		g.parked[key]++
		g.mu.Unlock()
		select {
		case g.arrived <- key:
		default:
		}
		<-ch
		g.mu.Lock()
		g.parked[key]--
		g.mu.Unlock()
		atomic.AddInt64(&g.inGate, -1)
		if g.log != nil {
			g.log.Add("R", key, 0)
		}
	}
}

// Arrived delivers the keys of goroutines that reached a Hold gate.
func (g *Gates) Arrived() <-chan string { return g.arrived }

// Parked reports whether some goroutine is currently parked on gate key.
func (g *Gates) Parked(key string) bool {
	g.mu.Lock()
	defer g.mu.Unlock()
	return g.parked[key] > 0
}

// InGate is the number of goroutines currently parked in Hold gates.
func (g *Gates) InGate() int64 { return atomic.LoadInt64(&g.inGate) }

// MaxInGate is the maximum ever observed.
func (g *Gates) MaxInGate() int64 { return atomic.LoadInt64(&g.maxIn) }

// Release opens gate key (idempotent).
func (g *Gates) Release(key string) {
	g.mu.Lock()
	ch, ok := g.rel[key]
	if ok {
		select {
		case <-ch:
		default:
			close(ch)
		}
	}
	g.mu.Unlock()
}

// ReleaseAll opens every gate and makes future Hold gates free (case teardown).
func (g *Gates) ReleaseAll() {
	g.mu.Lock()
	g.closed = true
	for _, ch := range g.rel {
		select {
		case <-ch:
		default:
			close(ch)
		}
	}
	g.mu.Unlock()
}

// Reopen forgets all gate settings and releases so that the Gates can be reused for
// another phase of the same case.
func (g *Gates) Reopen() {
	g.mu.Lock()
	g.closed = false
	g.parked = map[string]int{}
	g.mode = map[string]int{}
	g.yields = map[string]int{}
	g.rel = map[string]chan struct{}{}
	g.mu.Unlock()
	for {
		select {
		case <-g.arrived:
		default:
			return
		}
	}
}

// WaitArrival waits until key (or any key if key=="") arrives at a Hold gate, or done is
// closed, or the bound expires. It returns the key and what happened.
func (g *Gates) WaitArrival(done <-chan struct{}, bound time.Duration) (string, string) {
	t := time.NewTimer(bound)
	defer t.Stop()
	select {
	case k := <-g.arrived:
		return k, "arrived"
	case <-done:
		return "", "done"
	case <-t.C:
		return "", "timeout"
	}
}

// Quiesce waits until the log has not grown for the interval d (at most max).
func Quiesce(l *Log, d, max time.Duration) {
	deadline := time.Now().Add(max)
	last := l.Len()
	for {
		time.Sleep(d)
		n := l.Len()
		if n == last || time.Now().After(deadline) {
			return
		}
		last = n
	}
}
