module verif

go 1.23

require (
	github.com/bilibili/gengine v0.0.0
	github.com/google/martian v2.1.0+incompatible
	pgregory.net/rapid v1.3.0
)

require (
	github.com/antlr/antlr4 v0.0.0-20210105192202-5c2b686f95e1 // indirect
	github.com/golang-collections/collections v0.0.0-20130729185459-604e922904d3 // indirect
)

replace github.com/bilibili/gengine => /repo
