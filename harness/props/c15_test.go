package props

import (
	"fmt"
	"sort"
	"strings"
	"sync"
	"sync/atomic"
	"testing"
	"time"

	"github.com/bilibili/gengine/builder"
	"github.com/bilibili/gengine/context"
	"github.com/bilibili/gengine/engine"
	"pgregory.net/rapid"

	"verif/gx"
	"verif/models"
	"verif/obs"
)

// C15 - rule locals are private to one execution of one rule.
type C15Rule struct {
	Name  string `json:"name"`
	Sal   int64  `json:"sal"`
	Kind  string `json:"kind"` // writer | reader | cond | sharedw | sharedr | wpanic | werror
	Local string `json:"local"`
}

type C15Case struct {
	Rules    []C15Rule      `json:"rules"`
	Pool     bool           `json:"pool,omitempty"`
	PoolMin  int64          `json:"pool_min,omitempty"`
	PoolMax  int64          `json:"pool_max,omitempty"`
	EM       int            `json:"em,omitempty"`
	Calls    []C11Call      `json:"calls"`
	Parallel int            `json:"parallel,omitempty"` // pool: simultaneous identical requests per call
	Gates    map[string]int `json:"gates,omitempty"`
	QuiesMs  int            `json:"quies_ms,omitempty"`
}

type c15Shared struct{ V int64 }

type c15RefHost struct {
	MA map[string]int64
	SA []int64
}

// c15Obj is an object created inside a rule and kept in a local.
type c15Obj struct{ id, bumps int64 }

// c15Host3 / c15Inner3: receiver chain of a three-level call that reports the value it is given.
type c15Inner3 struct{ log *obs.Log }
type c15Host3 struct{ In *c15Inner3 }

func (i *c15Inner3) Chk(n string, v int64) { i.log.Add("C", n, v) }

func (o *c15Obj) Id() int64 { return o.id }
func (o *c15Obj) Bump()     { o.bumps++ }

// c15Needs lists the injected data names the rule set refers to (besides the stop tag).
func c15Needs(rs []C15Rule) []string {
	need := map[string]bool{}
	for _, r := range rs {
		switch r.Kind {
		case "cond":
			need["flags"] = true
		case "sharedw", "sharedr":
			need["shared"] = true
		case "rangeinj", "seeinj":
			need["sk"] = true
		}
	}
	var out []string
	for _, n := range []string{"flags", "shared", "sk"} {
		if need[n] {
			out = append(out, n)
		}
	}
	return out
}

func (r C15Rule) text() string {
	var b strings.Builder
	fmt.Fprintf(&b, "rule %q %q salience %d\nbegin\n  S(@name)\n", r.Name, "d", r.Sal)
	x := r.Local
	switch r.Kind {
	case "writer":
		// the read goes through an arithmetic expression over the local
		fmt.Fprintf(&b, "  %s = uniq(@name)\n  gate(@name)\n  chk(@name, %s * 1 + 0)\n  E(@name)\n", x, x)
	case "writer3":
		// the local is read as the argument of a three-level call written as a statement
		fmt.Fprintf(&b, "  %s = uniq(@name)\n  gate(@name)\n  H3.In.Chk(@name, %s)\n  E(@name)\n", x, x)
	case "objwriter":
		// the local holds an object created by this execution and is the receiver of a method call
		fmt.Fprintf(&b, "  %s = newobj(@name)\n  gate(@name)\n  chk(@name, %s.Id())\n  %s.Bump()\n  chk2(@name, %s.Id())\n  E(@name)\n", x, x, x, x)
	case "refholder":
		// the local is bound to a map-typed field of a pointer-injected struct; another rule
		// re-points that field while this one is parked; the local keeps the map it was bound to
		fmt.Fprintf(&b, "  %s = RH.MA\n  bnd(@name, %s[\"k\"])\n  gate(@name)\n  chk(@name, %s[\"k\"])\n  E(@name)\n", x, x, x)
	case "refholders":
		// the same with a slice-typed field
		fmt.Fprintf(&b, "  %s = RH.SA\n  bnd(@name, %s[0])\n  gate(@name)\n  chk(@name, %s[0])\n  E(@name)\n", x, x, x)
	case "refwriter":
		fmt.Fprintf(&b, "  RH.MA = newmap()\n  RH.SA = newsl()\n  E(@name)\n")
	case "reader":
		fmt.Fprintf(&b, "  FX(@name)\n  gate(@name)\n  leak(@name, %s)\n  E(@name)\n", x)
	case "cond":
		fmt.Fprintf(&b, "  if flags.On {\n    %s = uniq(@name)\n  } else {\n    FX(@name)\n  }\n  gate(@name)\n  chk(@name, %s)\n  E(@name)\n", x, x)
	case "wpanic":
		// assigns the local, then fails in a construct that has no recover of its own
		fmt.Fprintf(&b, "  %s = uniq(@name)\n  FX(@name)\n  if %s {\n    %s = 0\n  }\n  E(@name)\n", x, x, x)
	case "wretfail":
		// assigns the local and reaches its return, but the returned value (read from an
		// unexported field) cannot be handed out: the rule fails after its statements ended
		fmt.Fprintf(&b, "  %s = uniq(@name)\n  FX(@name)\n  hv = O.hid\n  return hv\n", x)
	case "werror":
		// assigns the local, then fails with an ordinary error
		fmt.Fprintf(&b, "  %s = uniq(@name)\n  FX(@name)\n  %s = %s / 0\n  E(@name)\n", x, x, x)
	case "ranger":
		// the only local of this rule is the key variable of a forRange
		fmt.Fprintf(&b, "  forRange %s := three {\n    touch(@name, %s)\n  }\n  E(@name)\n", x, x)
	case "rangeinj":
		// the key variable of the forRange is an injected (pointer) name: it is shared with the
		// other rules of the call and with the host
		fmt.Fprintf(&b, "  forRange sk := three {\n    touchk(@name, sk)\n  }\n  seek(@name, sk)\n  E(@name)\n")
	case "seeinj":
		fmt.Fprintf(&b, "  seek(@name, sk)\n  E(@name)\n")
	case "sharedw":
		fmt.Fprintf(&b, "  %s = uniq(@name)\n  shared.V = %s\n  wrote(@name, %s)\n  E(@name)\n", x, x, x)
	case "sharedr":
		fmt.Fprintf(&b, "  see(@name, shared.V)\n  E(@name)\n")
	}
	b.WriteString("end\n")
	return b.String()
}

func init() {
	register(&Prop{
		ID:   "C15",
		Rule: "rule sets of 2-7 rules that all use the same two local names: writers (x = uniq(); gate(); chk(x)), readers that never assign (must fail in every model and call), conditional writers driven by an injected flag that changes between calls, writers that read their local as the argument of a three-level call statement, writers whose local holds an object they created and use as a method receiver, writers/readers of a shared injected struct field, holders that bind their local to a map- or slice-typed field of an injected struct and read it again after the gate while other rules re-point that field, rules whose forRange key variable is a pointer-injected name and rules that read that name; 2-3 calls per case over all execution models of engine and pool, DAG layers that repeat a rule, 2-3 simultaneous identical pool requests, writers parked on Hold gates between assignment and read; oracle: every chk receives exactly the value its own execution drew (multiset of drawn and checked values per rule equal, no value seen twice), a reader that never assigned never gets a value, a conditional writer fails whenever its flag is off even if an earlier call or a concurrent execution assigned the local, a shared field written by an earlier rule of a sorted call is seen by the later rule, an injected forRange key holds the last key afterwards - for the host, for the looping rule and for later rules of a sorted call. Two pointers are injected under the names X and Y, which differ only in case from the locals: they must keep their values and never serve as the locals. Non-trivial: >= 2 rules (or >= 2 concurrent executions of one rule) share a local name and a writer was parked; distinct by case hash",
		New:  func() interface{} { return &C15Case{} },
		Gen: func(t *rapid.T) interface{} {
			c := &C15Case{QuiesMs: 2}
			n := uni(t, "nrules", 2, 7)
			kinds := []string{"writer", "writer", "writer", "reader", "reader", "reader", "cond", "cond", "sharedw", "sharedr", "wpanic", "wpanic", "werror", "wretfail", "ranger", "ranger", "rangeinj", "seeinj", "objwriter", "objwriter", "writer3", "writer3", "refholder", "refholders", "refwriter", "refwriter"}
			for i := 0; i < n; i++ {
				c.Rules = append(c.Rules, C15Rule{Name: fmt.Sprintf("r%d", i), Sal: int64(uni(t, fmt.Sprintf("sal%d", i), -2, 4)),
					Kind: kinds[uni(t, fmt.Sprintf("kind%d", i), 0, len(kinds)-1)], Local: []string{"x", "x", "y", "_1"}[uni(t, fmt.Sprintf("local%d", i), 0, 3)]})
			}
			c.Pool = rapid.Bool().Draw(t, "pool")
			if c.Pool {
				sizes := [][2]int64{{1, 2}, {1, 3}, {2, 3}, {2, 4}}
				s := sizes[uni(t, "pool_size", 0, 3)]
				c.PoolMin, c.PoolMax = s[0], s[1]
				c.EM = uni(t, "em", 1, 4)
				if pct(t, "parallel", 50) {
					c.Parallel = uni(t, "npar", 2, int(c.PoolMax))
				}
			}
			mrules := make([]models.Rule, len(c.Rules))
			for i, r := range c.Rules {
				mrules[i] = models.Rule{Name: r.Name, Sal: r.Sal}
			}
			ms := gx.MethodNames(c.Pool)
			nc := uni(t, "ncalls", 2, 3)
			for k := 0; k < nc; k++ {
				method := ms[uni(t, fmt.Sprintf("method%d", k), 0, len(ms)-1)]
				if method == "ExecuteRulesWithSpecifiedEM" && len(c15Needs(c.Rules)) > 2 {
					// that method injects at most two values
					method = "ExecuteRulesWithMultiInputWithSpecifiedEM"
				}
				call := c11GenCall(t, fmt.Sprintf("c%d_", k), method, mrules)
				m, _ := gx.Lookup(method)
				if m.Shape == gx.ShDAG && len(call.DAG) > 0 && pct(t, fmt.Sprintf("dagdup%d", k), 60) {
					// the same rule twice in one layer
					li := uni(t, fmt.Sprintf("duplayer%d", k), 0, len(call.DAG)-1)
					r := c.Rules[uni(t, fmt.Sprintf("duprule%d", k), 0, len(c.Rules)-1)].Name
					call.DAG[li] = append(call.DAG[li], r, r)
				}
				c.Calls = append(c.Calls, C11Call{Call: call, Flag: rapid.Bool().Draw(t, fmt.Sprintf("flag%d", k))})
			}
			c.Gates = map[string]int{}
			for _, r := range c.Rules {
				switch {
				case (r.Kind == "writer" || r.Kind == "writer3" || r.Kind == "objwriter" || r.Kind == "cond" || r.Kind == "refholder" || r.Kind == "refholders") && pct(t, "hold_"+r.Name, 45):
					c.Gates[r.Name] = obs.Hold
				case pct(t, "yield_"+r.Name, 30):
					c.Gates[r.Name] = obs.Yield
				}
			}
			return c
		},
		Check: checkC15,
	})
}

func checkC15(ci interface{}, x *Ctx) {
	c := ci.(*C15Case)
	env := newSchedEnv()
	var ctr int64
	apis := env.apis()
	apis["FX"] = func(n string) { env.log.Add("F", n, 0) }
	apis["uniq"] = func(n string) int64 { v := atomic.AddInt64(&ctr, 1); env.log.Add("U", n, v); return v }
	apis["chk"] = func(n string, v int64) { env.log.Add("C", n, v) }
	apis["chk2"] = func(n string, v int64) { env.log.Add("C2", n, v) }
	apis["H3"] = &c15Host3{In: &c15Inner3{log: env.log}}
	apis["newobj"] = func(n string) *c15Obj { v := atomic.AddInt64(&ctr, 1); env.log.Add("U", n, v); return &c15Obj{id: v} }
	// refholder / refwriter: a struct whose map and slice fields are re-pointed by refwriter rules
	// (a word-sized store; the maps and slices themselves are never modified)
	apis["RH"] = &c15RefHost{MA: map[string]int64{"k": atomic.AddInt64(&ctr, 1)}, SA: []int64{atomic.AddInt64(&ctr, 1)}}
	apis["bnd"] = func(n string, v int64) { env.log.Add("U", n, v) }
	apis["newmap"] = func() map[string]int64 { return map[string]int64{"k": atomic.AddInt64(&ctr, 1)} }
	apis["newsl"] = func() []int64 { return []int64{atomic.AddInt64(&ctr, 1)} }
	apis["leak"] = func(n string, v interface{}) { env.log.Add("LEAK", n, 0) }
	apis["wrote"] = func(n string, v int64) { env.log.Add("W", n, v) }
	apis["see"] = func(n string, v int64) { env.log.Add("SEE", n, v) }
	apis["touch"] = func(n string, v int64) { env.log.Add("TOUCH", n, v) }
	apis["three"] = []int64{7, 8, 9}
	// reading a pointer-injected scalar yields the pointer itself; the observers look through it
	deref := func(v interface{}) int64 {
		switch t := v.(type) {
		case *int64:
			return *t
		case int64:
			return t
		case int:
			return int64(t)
		}
		return -99
	}
	apis["seek"] = func(n string, v interface{}) { env.log.Add("SK", n, deref(v)) }
	apis["touchk"] = func(n string, v interface{}) { env.log.Add("TOUCH", n, deref(v)) }
	skv := make([]int64, 8) // the host variables behind the injected name sk (one per parallel request)
	// X and Y are injected pointers whose names differ only in case from the locals x and y:
	// names are case sensitive, so no rule ever touches them
	caseTwin := []int64{-77, -78}
	apis["X"] = &caseTwin[0]
	apis["Y"] = &caseTwin[1]
	flags := &c11Flags{}
	shared := &c15Shared{}
	var text strings.Builder
	byName := map[string]C15Rule{}
	localUsers := map[string]int{}
	for _, r := range c.Rules {
		text.WriteString(r.text())
		byName[r.Name] = r
		if r.Kind != "sharedr" && r.Kind != "rangeinj" && r.Kind != "seeinj" {
			localUsers[r.Local]++
		}
	}
	tg := &schedTarget{env: env}
	if c.Pool {
		p, err := engine.NewGenginePool(c.PoolMin, c.PoolMax, c.EM, text.String(), apis)
		if err != nil {
			x.Violation("compile", "generated text rejected: %v\n%s", err, text.String())
			return
		}
		tg.pool = p
	} else {
		dc := context.NewDataContext()
		for k, v := range apis {
			dc.Add(k, v)
		}
		dc.Add("stag", env.tag)
		dc.Add("flags", flags)
		dc.Add("shared", shared)
		dc.Add("sk", &skv[0])
		rb := builder.NewRuleBuilder(dc)
		if err := rb.BuildRuleFromString(text.String()); err != nil {
			x.Violation("compile", "generated text rejected: %v\n%s", err, text.String())
			return
		}
		tg.rb, tg.g = rb, engine.NewGengine()
	}
	sharing := false
	for _, n := range localUsers {
		if n >= 2 {
			sharing = true
		}
	}
	for ci2, cc := range c.Calls {
		flags.On = cc.Flag
		env.log.Reset()
		env.gates.Reopen()
		for n, m := range c.Gates {
			env.gates.Set(n, m, 3)
		}
		env.tag.StopTag = false
		for i := range skv {
			skv[i] = -5
		}
		par := 1
		if tg.pool != nil && c.Parallel > 1 {
			par = c.Parallel
		}
		mrules := make([]models.Rule, len(c.Rules))
		for i, r := range c.Rules {
			mrules[i] = models.Rule{Name: r.Name, Sal: r.Sal, Fails: r.Kind == "reader" || r.Kind == "wpanic" || r.Kind == "werror" || r.Kind == "wretfail" || (r.Kind == "cond" && !cc.Flag)}
		}
		results := make([]gx.Result, par)
		var wg sync.WaitGroup
		done := make(chan struct{})
		for p := 0; p < par; p++ {
			wg.Add(1)
			go func(p int) {
				defer wg.Done()
				if tg.pool != nil {
					all := map[string]interface{}{"flags": flags, "shared": shared, "sk": &skv[p]}
					data := map[string]interface{}{"stag": env.tag}
					for _, n := range c15Needs(c.Rules) {
						data[n] = all[n]
					}
					results[p] = gx.OnPool(tg.pool, cc.Call, data, env.tag)
				} else {
					results[p] = gx.OnEngine(tg.g, tg.rb, cc.Call, env.tag)
				}
			}(p)
		}
		go func() { wg.Wait(); close(done) }()
		deadline := time.After(hangBound())
		parked := false
	loop:
		for {
			select {
			case k := <-env.gates.Arrived():
				parked = true
				obs.Quiesce(env.log, time.Duration(c.QuiesMs)*time.Millisecond, 100*time.Millisecond)
				env.gates.Release(k)
			case <-done:
				break loop
			case <-deadline:
				env.gates.ReleaseAll()
				hangExit(x, currentCaseJSON, "call "+cc.Call.String()+" did not return")
			}
		}
		env.gates.ReleaseAll()
		trace := env.log.Snapshot()
		m, _ := gx.Lookup(cc.Call.Method)
		shape, _, _ := models.EffectiveShape(m, c.EM)
		x.Class("shape:" + shape)
		if par > 1 {
			x.Class("parallel-pool-requests")
		}
		for _, r := range results {
			if r.Panic != "" {
				x.Violation("panic/"+shape, "call %d %s panicked: %s", ci2, cc.Call, truncate(r.Panic, 200))
				return
			}
		}
		// private locals: per rule, the multiset of drawn values equals the multiset of checked values
		drawn, checked, checked2 := map[string][]int64{}, map[string][]int64{}, map[string][]int64{}
		startCount := map[string]int{}
		for _, e := range trace {
			switch e.Kind {
			case "U":
				if k := byName[e.Name].Kind; k != "sharedw" && k != "wpanic" && k != "werror" && k != "wretfail" {
					drawn[e.Name] = append(drawn[e.Name], e.Arg)
				}
			case "C":
				checked[e.Name] = append(checked[e.Name], e.Arg)
			case "C2":
				checked2[e.Name] = append(checked2[e.Name], e.Arg)
			case "S":
				startCount[e.Name]++
			case "LEAK":
				x.Violation("leak-to-reader/"+shape, "call %d %s: rule %q reads local %q which it never assigned and got a value (it must fail): the local of another rule, an earlier call or a concurrent execution is visible\ntrace %v", ci2, cc.Call, e.Name, byName[e.Name].Local, trace)
				return
			}
		}
		for _, r := range c.Rules {
			d, ch := drawn[r.Name], checked[r.Name]
			sort.Slice(d, func(i, j int) bool { return d[i] < d[j] })
			sort.Slice(ch, func(i, j int) bool { return ch[i] < ch[j] })
			if r.Kind == "objwriter" {
				x.Class("local-holds-an-object-used-as-method-receiver")
				c2 := checked2[r.Name]
				sort.Slice(c2, func(i, j int) bool { return c2[i] < c2[j] })
				if fmt.Sprint(d) != fmt.Sprint(c2) {
					x.Violation("foreign-object/"+shape, "call %d %s: rule %q created the objects %v for its local %q but its later method calls on the local reached the objects %v\ntrace %v", ci2, cc.Call, r.Name, d, r.Local, c2, trace)
					return
				}
			}
			if r.Kind == "cond" && !cc.Flag && len(ch) > 0 {
				x.Violation("stale-local/"+shape, "call %d %s: conditional writer %q did not assign %q in this call (flag off) but read the value %v (from an earlier call or another execution)\ntrace %v", ci2, cc.Call, r.Name, r.Local, ch, trace)
				return
			}
			if (r.Kind == "refholder" || r.Kind == "refholders") && fmt.Sprint(d) != fmt.Sprint(ch) {
				x.Violation("re-pointed-field-seen-through-local/"+shape, "call %d %s: rule %q bound its local %q to a map / slice field and saw the values %v then; after the gate its executions read %v through the local (another rule re-points the field, it does not touch the old map / slice)\ntrace %v", ci2, cc.Call, r.Name, r.Local, d, ch, trace)
				return
			}
			if (r.Kind == "writer" || r.Kind == "writer3" || r.Kind == "objwriter" || (r.Kind == "cond" && cc.Flag)) && fmt.Sprint(d) != fmt.Sprint(ch) {
				x.Violation("foreign-value/"+shape, "call %d %s: rule %q drew %v for its local %q but its executions read back %v\ntrace %v", ci2, cc.Call, r.Name, d, r.Local, ch, trace)
				return
			}
			if startCount[r.Name] >= 2 && (r.Kind == "writer" || r.Kind == "writer3" || r.Kind == "objwriter" || r.Kind == "cond") {
				x.Class("same-rule-executed-concurrently")
				if parked {
					x.NonTrivial()
				}
			}
		}
		if sharing && parked {
			x.Class("shared-name-with-parked-writer")
			x.NonTrivial()
		}
		if par == 1 {
			in := models.Input{Rules: mrules, Call: cc.Call, EM: c.EM, Trace: trace, Err: results[0].Err != nil, Result: results[0].Map, SkipResult: true}
			for _, v := range models.Validate(in) {
				x.Violation("model:"+v.Kind+"/"+shape, "call %d %s (flag=%v): %s\ntrace %v", ci2, cc.Call, cc.Flag, v.Msg, trace)
			}
			// an injected name used as forRange key is written through: the host sees the last key
			rangeDone := false
			for _, e := range trace {
				if e.Kind == "E" && byName[e.Name].Kind == "rangeinj" {
					rangeDone = true
				}
			}
			if rangeDone {
				x.Class("forrange-key-is-an-injected-name")
				if skv[0] != 2 {
					x.Violation("injected-key-not-written-through/"+shape, "call %d %s: a rule ran 'forRange sk := three' to its end, sk is an injected pointer, but the host's variable holds %d afterwards (want the last key, 2)\ntrace %v", ci2, cc.Call, skv[0], trace)
				}
			}
			if shape == gx.ShSort {
				done := false
				for _, e := range trace {
					switch {
					case e.Kind == "E" && byName[e.Name].Kind == "rangeinj":
						done = true
					case e.Kind == "SK" && (done || byName[e.Name].Kind == "rangeinj") && e.Arg != 2:
						x.Violation("injected-key-not-shared/"+shape, "call %d %s: rule %q read the injected name sk = %d after a forRange over it (in this or an earlier rule of the call) ended with key 2\ntrace %v", ci2, cc.Call, e.Name, e.Arg, trace)
					}
				}
			}
			// injected names are shared by all rules of the call (sorted models: order known)
			if shape == gx.ShSort && !m.AsGiven {
				last := int64(-1)
				lastSal := int64(0)
				for _, e := range trace {
					switch e.Kind {
					case "W":
						last, lastSal = e.Arg, byName[e.Name].Sal
					case "SEE":
						if last >= 0 && byName[e.Name].Sal < lastSal && e.Arg != last {
							x.Violation("shared-not-seen", "call %d %s: rule %q read shared.V=%d but an earlier rule of the same call wrote %d\ntrace %v", ci2, cc.Call, e.Name, e.Arg, last, trace)
						}
						if last >= 0 {
							x.Class("shared-field-seen-by-later-rule")
						}
					}
				}
			}
		}
		if caseTwin[0] != -77 || caseTwin[1] != -78 {
			x.Violation("case-twin-written/"+shape, "call %d %s: the injected variables X / Y (never named by any rule; the rules use the locals x / y) hold %d / %d afterwards, want -77 / -78: a local was stored into an injected name that differs only in case\ntrace %v", ci2, cc.Call, caseTwin[0], caseTwin[1], trace)
		}
		if x.Failed() {
			return
		}
	}
}

func TestC15(t *testing.T) { runProp(t, "C15") }
