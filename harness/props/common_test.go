package props

import (
	"encoding/json"
	"fmt"
	"hash/fnv"
	"os"
	"path/filepath"
	"sort"
	"strings"
	"sync"
	"testing"
	"time"

	"pgregory.net/rapid"

	"verif/dsl"
)

// ---------------------------------------------------------------------------------
// Property registry
// ---------------------------------------------------------------------------------

// Prop is one listed property stated as an executable check over generated cases.
type Prop struct {
	ID    string
	Rule  string                     // how cases are generated and what makes one non-trivial
	Gen   func(t *rapid.T) interface{} // draws a JSON-serialisable case (pointer to struct)
	New   func() interface{}           // empty case for JSON decoding (replay)
	Check func(c interface{}, x *Ctx)  // executes the case against gengine and the oracle
	// Enum, if set, lists a finite product of cases that the thorough tier enumerates
	// completely (sharded) before the random search.
	Enum func() []interface{}
}

var registry = map[string]*Prop{}

func register(p *Prop) { registry[p.ID] = p }

// Violation found by a check.
type Violation struct {
	Sig string `json:"sig"` // stable signature: fault class / construct / model (used by known_findings.txt)
	Msg string `json:"msg"`
}

// Ctx is handed to Check: classification, non-triviality, violations.
type Ctx struct {
	Prop       string
	classes    []string
	nontrivial bool
	ntKey      string
	viol       []Violation
	extra      map[string]interface{}
	replay     bool
}

func (x *Ctx) Class(name string) {
	for _, c := range x.classes {
		if c == name {
			return
		}
	}
	x.classes = append(x.classes, name)
}
func (x *Ctx) NonTrivial()                 { x.nontrivial = true }

// compileCostLimit bounds dsl.ParseCost (roughly milliseconds of compile time) of the texts
// submitted to gengine: the ANTLR parser needs time and memory exponential in the nesting of
// bracket groups inside operator chains (known finding of C10, DESIGN.md section 5), so a
// text above the limit is not submitted but counted.
const compileCostLimit = 400

// tooCostly reports (and counts) a text whose estimated compile cost is above the limit.
func tooCostly(x *Ctx, text string) bool {
	if dsl.ParseCost(text) <= compileCostLimit {
		return false
	}
	x.Class("excluded:estimated-compile-cost-above-limit")
	st.mu.Lock()
	st.Known["compile-cost-blowup"]++
	st.mu.Unlock()
	return true
}
func (x *Ctx) hasClass(name string) bool {
	for _, c := range x.classes {
		if c == name {
			return true
		}
	}
	return false
}
func (x *Ctx) Violation(sig, f string, a ...interface{}) {
	x.viol = append(x.viol, Violation{Sig: sig, Msg: fmt.Sprintf(f, a...)})
}
func (x *Ctx) Extra(k string, v interface{}) {
	if x.extra == nil {
		x.extra = map[string]interface{}{}
	}
	x.extra[k] = v
}
func (x *Ctx) Failed() bool { return len(x.viol) > 0 }

// ---------------------------------------------------------------------------------
// Environment
// ---------------------------------------------------------------------------------

func outDir() string {
	d := os.Getenv("VERIF_OUT")
	if d == "" {
		d = filepath.Join(os.TempDir(), "verif-out")
	}
	os.MkdirAll(d, 0o755)
	return d
}

func tier() string {
	if os.Getenv("VERIF_TIER") == "thorough" {
		return "thorough"
	}
	return "quick"
}

func thorough() bool { return tier() == "thorough" }

func hangBound() time.Duration {
	if s := os.Getenv("VERIF_HANG_BOUND"); s != "" {
		if d, err := time.ParseDuration(s); err == nil {
			return d
		}
	}
	return 30 * time.Second
}

// known findings: signature -> description (only "finding:" lines suppress)
var (
	knownOnce sync.Once
	known     map[string]string
)

func knownFindings() map[string]string {
	knownOnce.Do(func() {
		known = map[string]string{}
		p := os.Getenv("VERIF_KNOWN")
		if p == "" {
			return
		}
		b, err := os.ReadFile(p)
		if err != nil {
			return
		}
		for _, ln := range strings.Split(string(b), "\n") {
			ln = strings.TrimSpace(ln)
			if !strings.HasPrefix(ln, "finding:") {
				continue
			}
			// finding: property=C07 sig=<sig> <text>
			var prop, sig string
			for _, f := range strings.Fields(ln) {
				if strings.HasPrefix(f, "property=") {
					prop = strings.TrimPrefix(f, "property=")
				}
				if strings.HasPrefix(f, "sig=") {
					sig = strings.TrimPrefix(f, "sig=")
				}
			}
			if prop != "" && sig != "" {
				known[prop+" "+sig] = ln
			}
		}
	})
	return known
}

// ---------------------------------------------------------------------------------
// Statistics (merged by the driver into evidence/<id>.json)
// ---------------------------------------------------------------------------------

type stats struct {
	mu         sync.Mutex
	Prop       string            `json:"prop"`
	Rule       string            `json:"rule"`
	Cases      int               `json:"cases"`
	NonTrivial []uint64          `json:"nontrivial_hashes"`
	ntSet      map[uint64]bool
	Classes    map[string]int    `json:"classes"`
	Samples    []json.RawMessage `json:"samples"`
	Known      map[string]int    `json:"known"`
	Skipped    int               `json:"skipped"`
	EnumTotal  int               `json:"enum_total"`
	EnumDone   int               `json:"enum_done"`
	WallS      float64           `json:"wall_s"`
	start      time.Time
}

var st = &stats{ntSet: map[uint64]bool{}, Classes: map[string]int{}, Known: map[string]int{}}

func (s *stats) record(x *Ctx, caseJSON []byte) {
	s.mu.Lock()
	defer s.mu.Unlock()
	s.Cases++
	for _, c := range x.classes {
		s.Classes[c]++
	}
	if x.nontrivial {
		h := fnv.New64a()
		h.Write(caseJSON)
		k := h.Sum64()
		if !s.ntSet[k] {
			s.ntSet[k] = true
			if len(s.Samples) < 3 && len(caseJSON) < 6000 {
				s.Samples = append(s.Samples, append(json.RawMessage(nil), caseJSON...))
			}
		}
	}
}

func (s *stats) dump() {
	s.mu.Lock()
	defer s.mu.Unlock()
	s.NonTrivial = s.NonTrivial[:0]
	for k := range s.ntSet {
		s.NonTrivial = append(s.NonTrivial, k)
	}
	sort.Slice(s.NonTrivial, func(i, j int) bool { return s.NonTrivial[i] < s.NonTrivial[j] })
	s.WallS = time.Since(s.start).Seconds()
	b, _ := json.Marshal(s)
	os.WriteFile(filepath.Join(outDir(), "stats.json"), b, 0o644)
}

// ---------------------------------------------------------------------------------
// Fail / current-case files
// ---------------------------------------------------------------------------------

type failFile struct {
	Prop       string                 `json:"prop"`
	Case       json.RawMessage        `json:"case"`
	Violations []Violation            `json:"violations"`
	Extra      map[string]interface{} `json:"extra,omitempty"`
	Kind       string                 `json:"kind"` // violation | hang | crash
}

func writeJSON(path string, v interface{}) {
	b, err := json.MarshalIndent(v, "", " ")
	if err != nil {
		b = []byte(fmt.Sprintf(`{"marshal_error":%q}`, err.Error()))
	}
	tmp := path + ".tmp"
	os.WriteFile(tmp, b, 0o644)
	os.Rename(tmp, path)
}

func writeCurrent(prop string, caseJSON []byte) {
	f := failFile{Prop: prop, Case: caseJSON, Kind: "current"}
	b, _ := json.Marshal(f)
	os.WriteFile(filepath.Join(outDir(), "current.json"), b, 0o644)
}

// hangExit is called by a check when a call into gengine did not return within the
// bound: the goroutines stuck inside gengine cannot be cleaned up, so the shard stops at
// once with a dedicated exit code and the driver re-runs the case in isolation.
func hangExit(x *Ctx, caseJSON []byte, what string) {
	f := failFile{Prop: x.Prop, Case: caseJSON, Kind: "hang", Extra: x.extra,
		Violations: []Violation{{Sig: "hang", Msg: what}}}
	writeJSON(filepath.Join(outDir(), "fail.json"), f)
	st.dump()
	fmt.Printf("HANG-SUSPECT property=%s %s\n", x.Prop, what)
	os.Exit(3)
}

// ---------------------------------------------------------------------------------
// Runner
// ---------------------------------------------------------------------------------

var currentCaseJSON []byte // for hangExit from deep inside checks
var currentCtx *Ctx         // the case being checked (for guard)

func runProp(t *testing.T, id string) {
	p := registry[id]
	if p == nil {
		t.Fatalf("no property %s", id)
	}
	if rp := os.Getenv("VERIF_REPLAY"); rp != "" {
		replayProp(t, p, rp)
		return
	}
	st.Prop = id
	st.Rule = p.Rule
	st.start = time.Now()
	defer st.dump()
	kf := knownFindings()
	if p.Enum != nil && (thorough() || os.Getenv("VERIF_ENUM") != "") {
		runEnum(t, p, kf)
		if t.Failed() {
			return
		}
	}
	rapid.Check(t, func(rt *rapid.T) {
		c := p.Gen(rt)
		cj, err := json.Marshal(c)
		if err != nil {
			rt.Fatalf("case not serialisable: %v", err)
		}
		currentCaseJSON = cj
		writeCurrent(id, cj)
		x := &Ctx{Prop: id}
		currentCtx = x
		p.Check(c, x)
		st.record(x, cj)
		var fresh []Violation
		for _, v := range x.viol {
			if _, ok := kf[id+" "+v.Sig]; ok {
				st.mu.Lock()
				st.Known[v.Sig]++
				st.mu.Unlock()
				continue
			}
			fresh = append(fresh, v)
		}
		if len(fresh) > 0 {
			writeJSON(filepath.Join(outDir(), "fail.json"), failFile{Prop: id, Case: cj, Violations: fresh, Extra: x.extra, Kind: "violation"})
			rt.Fatalf("property %s violated: [%s] %s", id, fresh[0].Sig, fresh[0].Msg)
		}
	})
}

// runEnum executes this shard's share of the property's finite enumeration.
func runEnum(t *testing.T, p *Prop, kf map[string]string) {
	shard, nshards := 0, 1
	fmt.Sscan(os.Getenv("VERIF_SHARD"), &shard)
	fmt.Sscan(os.Getenv("VERIF_NSHARDS"), &nshards)
	if nshards < 1 {
		nshards = 1
	}
	cases := p.Enum()
	st.mu.Lock()
	st.EnumTotal = len(cases)
	st.mu.Unlock()
	for i, c := range cases {
		if i%nshards != shard {
			continue
		}
		cj, _ := json.Marshal(c)
		currentCaseJSON = cj
		writeCurrent(p.ID, cj)
		x := &Ctx{Prop: p.ID}
		currentCtx = x
		p.Check(c, x)
		x.Class("enumerated")
		st.record(x, cj)
		st.mu.Lock()
		st.EnumDone++
		st.mu.Unlock()
		var fresh []Violation
		for _, v := range x.viol {
			if _, ok := kf[p.ID+" "+v.Sig]; ok {
				st.mu.Lock()
				st.Known[v.Sig]++
				st.mu.Unlock()
				continue
			}
			fresh = append(fresh, v)
		}
		if len(fresh) > 0 {
			writeJSON(filepath.Join(outDir(), "fail.json"), failFile{Prop: p.ID, Case: cj, Violations: fresh, Extra: x.extra, Kind: "violation"})
			t.Fatalf("property %s violated (enumeration case %d): [%s] %s", p.ID, i, fresh[0].Sig, fresh[0].Msg)
		}
	}
}

// replayProp re-executes a saved case without rapid.
func replayProp(t *testing.T, p *Prop, path string) {
	b, err := os.ReadFile(path)
	if err != nil {
		fmt.Printf("REPLAY-ERROR cannot read %s: %v\n", path, err)
		os.Exit(2)
	}
	var f failFile
	if err := json.Unmarshal(b, &f); err != nil || len(f.Case) == 0 {
		fmt.Printf("REPLAY-ERROR cannot decode %s: %v\n", path, err)
		os.Exit(2)
	}
	c := p.New()
	if err := json.Unmarshal(f.Case, c); err != nil {
		fmt.Printf("REPLAY-ERROR cannot decode case: %v\n", err)
		os.Exit(2)
	}
	currentCaseJSON = f.Case
	reps := 1
	if s := os.Getenv("VERIF_REPLAY_REPS"); s != "" {
		fmt.Sscan(s, &reps)
	}
	kf := knownFindings()
	for i := 0; i < reps; i++ {
		x := &Ctx{Prop: p.ID, replay: true}
		currentCtx = x
		p.Check(c, x)
		for _, v := range x.viol {
			if _, ok := kf[p.ID+" "+v.Sig]; ok {
				fmt.Printf("REPLAY-KNOWN property=%s sig=%s %s\n", p.ID, v.Sig, v.Msg)
				continue
			}
			fmt.Printf("REPLAY-VIOLATION property=%s sig=%s %s\n", p.ID, v.Sig, v.Msg)
			t.Fail()
		}
		if t.Failed() {
			return
		}
	}
	fmt.Printf("REPLAY-PASS property=%s reps=%d\n", p.ID, reps)
}

// withBound runs f on a new goroutine and waits for it at most hangBound(); if it does
// not return the shard exits through hangExit.
func withBound(x *Ctx, what string, f func()) {
	done := make(chan struct{})
	go func() {
		defer close(done)
		f()
	}()
	select {
	case <-done:
	case <-time.After(hangBound()):
		hangExit(x, currentCaseJSON, what+" did not return within "+hangBound().String())
	}
}

func jsonStr(v interface{}) string {
	b, _ := json.Marshal(v)
	return string(b)
}
