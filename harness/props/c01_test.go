package props

import (
	"fmt"
	"testing"

	"github.com/bilibili/gengine/builder"
	"github.com/bilibili/gengine/context"
	"github.com/bilibili/gengine/engine"
	"pgregory.net/rapid"

	"verif/dsl"
	"verif/gx"
	"verif/ref"
)

// C01 - expressions evaluate per the DSL's arithmetic, comparison and logic semantics.
type C01Case struct {
	World ExprWorld   `json:"world"`
	Rules []*dsl.Rule `json:"rules"`
	Lay   []byte      `json:"lay,omitempty"`
	Fault string      `json:"fault,omitempty"`
	// Rekind > 0: after the first execution the plain-injected numeric globals are injected
	// again with their values rotated by Rekind places (gI gets the value - and the Go kind -
	// gI8 had, and so on), and the same compiled rules are executed again on the same builder.
	Rekind int `json:"rekind,omitempty"`
	// Chain: one rule returns a flat operator chain of 10-200 operands
	Chain bool `json:"chain,omitempty"`
}

var c01NumericGlobals = []string{"gI", "gI8", "gI16", "gI32", "gI64", "gU", "gU8", "gU16", "gU32", "gU64", "gF32", "gF64"}

// c01Rekind rotates the values behind the numeric globals of an injection map.
func c01Rekind(inj map[string]interface{}, rot int) map[string]interface{} {
	out := map[string]interface{}{}
	for i, n := range c01NumericGlobals {
		out[n] = inj[c01NumericGlobals[(i+rot)%len(c01NumericGlobals)]]
	}
	return out
}

// buildDSL compiles a text with the given injected objects on a fresh builder.
func buildDSL(text string, inj map[string]interface{}) (*builder.RuleBuilder, error) {
	dc := context.NewDataContext()
	for k, v := range inj {
		dc.Add(k, v)
	}
	rb := builder.NewRuleBuilder(dc)
	if err := rb.BuildRuleFromString(text); err != nil {
		return nil, err
	}
	return rb, nil
}

// runOne executes exactly one rule of an installed set and returns (value, returned, error, panic).
func runOne(rb *builder.RuleBuilder, name string) (interface{}, bool, error, string) {
	g := engine.NewGengine()
	res := gx.OnEngine(g, rb, gx.Call{Method: "ExecuteSelectedRules", Names: []string{name}}, nil)
	v, ok := res.Map[name]
	return v, ok, res.Err, res.Panic
}

func precLevel(op string) string {
	switch dsl.Prec(op) {
	case 4:
		return "md"
	case 3:
		return "pm"
	case 2:
		return "cmp"
	}
	return "log"
}

// classifyExpr records the operator-pair matrix and reports whether precedence or
// associativity (rather than parentheses) decides a grouping.
func classifyExpr(x *Ctx, e *dsl.Expr) (implicitGrouping bool) {
	e.Walk(func(n *dsl.Expr) {
		if n.K != dsl.KBin {
			return
		}
		for side, c := range []*dsl.Expr{n.L, n.R} {
			if c.K != dsl.KBin {
				continue
			}
			s := "L"
			if side == 1 {
				s = "R"
			}
			x.Class("pair:" + precLevel(n.Op) + "/" + precLevel(c.Op) + "/" + s)
			need := dsl.Prec(c.Op) < dsl.Prec(n.Op) || (side == 1 && dsl.Prec(c.Op) == dsl.Prec(n.Op))
			if !need && c.Par == 0 {
				implicitGrouping = true
			}
		}
	})
	return
}

func init() {
	register(&Prop{
		ID:   "C01",
		Rule: "1-3 rules per text, each `[locals] return <expr>`; type-directed expression trees (depth <= 6, thorough 8) of class int/uint/float/string/bool over integer/real/string/bool literals (boundary and >2^53 values), rule locals, injected values of all 12 numeric kinds + string + bool (plain, struct field one and two levels deep, through pointer and value structs) and @name/@id/@desc/@sal with generated headers; 2% of the well-typed rules return one flat bracket-free operator chain of 10-200 operands (63-67 and 128-130 preferred) instead; parentheses printed only where the reference precedence requires them plus random redundant ones, random layout; ~20% of cases carry exactly one planted type fault or zero divisor; oracle = independent reference interpreter (value and class equal, or both fail; a panic or a value where the reference says error is a violation). In a quarter of the cases the numeric plain-injected globals are injected again with rotated values and Go kinds and the same compiled rules are executed a second time. Non-trivial: a grouping decided by precedence/associativity, or an int/uint/float kind mix, or an integer operand beyond 2^53, or a planted fault; distinct by case hash",
		New:  func() interface{} { return &C01Case{} },
		Gen: func(t *rapid.T) interface{} {
			c := &C01Case{World: genExprWorld(t)}
			nr := 1
			if pct(t, "multi", 25) {
				nr = uni(t, "nrules", 2, 3)
			}
			maxDepth := 6
			if thorough() {
				maxDepth = 8
			}
			faulty := pct(t, "faulty", 20)
			faultRule := uni(t, "faultrule", 0, nr-1)
			used := map[string]bool{}
			for i := 0; i < nr; i++ {
				r := &dsl.Rule{}
				genHeader(t, r, i)
				if used[r.Name] {
					r.Name = fmt.Sprintf("u%d", i)
				}
				used[r.Name] = true
				g := &exprGen{t: t, locals: map[byte][]string{}, faultAt: -1, atoms: true, parenP: 12}
				if faulty && i == faultRule {
					g.faultAt = uni(t, "faultat", 1, 25)
				}
				body := &dsl.Block{}
				nl := uni(t, fmt.Sprintf("nlocals%d", i), 0, 3)
				for j := 0; j < nl; j++ {
					cl := []byte{'i', 'u', 'f', 's', 'b'}[uni(t, fmt.Sprintf("lclass%d_%d", i, j), 0, 4)]
					name := fmt.Sprintf("x%d", j)
					e := g.expr(cl, uni(t, fmt.Sprintf("ldepth%d_%d", i, j), 0, 2))
					body.Stmts = append(body.Stmts, dsl.Assign(dsl.Var(name), []string{"=", ":="}[uni(t, "aop", 0, 1)], e))
					g.locals[cl] = append(g.locals[cl], name)
				}
				cl := []byte{'i', 'i', 'u', 'f', 's', 'b', 'b'}[uni(t, fmt.Sprintf("class%d", i), 0, 6)]
				body.HasRet = true
				if g.faultAt < 0 && pct(t, fmt.Sprintf("long_chain%d", i), 2) {
					body.Ret = g.chain(cl)
					c.Chain = true
				} else {
					body.Ret = g.expr(cl, uni(t, fmt.Sprintf("depth%d", i), 1, maxDepth))
				}
				r.Body = body
				c.Rules = append(c.Rules, r)
				if g.fault != "" {
					c.Fault = g.fault
				}
			}
			c.Lay = genLayout(t, 30)
			if pct(t, "rekind", 25) {
				c.Rekind = uni(t, "rekind_rot", 1, 11)
			}
			return c
		},
		Check: func(ci interface{}, x *Ctx) {
			c := ci.(*C01Case)
			for _, r := range c.Rules {
				for _, s := range r.Body.Stmts {
					if err := dsl.CheckGrammar(s.Val); err != nil {
						panic("generator produced an unprintable tree: " + err.Error())
					}
				}
				if err := dsl.CheckGrammar(r.Body.Ret); err != nil {
					panic("generator produced an unprintable tree: " + err.Error())
				}
			}
			text, _ := dsl.PrintRules(c.Rules, c.Lay)
			if tooCostly(x, text) {
				return
			}
			rb, err := buildDSL(text, c.World.inject())
			if err != nil {
				x.Violation("compile", "generated text was rejected: %v\n%s", err, text)
				return
			}
			if c.Fault != "" {
				x.Class("fault:" + c.Fault)
				x.NonTrivial()
			} else {
				x.Class("well-typed")
			}
			if len(c.Lay) > 0 {
				x.Class("fancy-layout")
			}
			if c.Chain {
				x.Class("flat-operator-chain-of-10-200-operands")
				x.NonTrivial()
			}
			refInj := c.World.inject()
			phases := 1
			if c.Rekind > 0 {
				phases = 2
			}
			for phase := 0; phase < phases; phase++ {
				if phase == 1 {
					x.Class("same-compiled-rules-executed-again-after-re-injection-with-other-kinds")
					x.NonTrivial()
					for n, v := range c01Rekind(c.World.inject(), c.Rekind) {
						rb.Dc.Add(n, v)
					}
					for n, v := range c01Rekind(c.World.inject(), c.Rekind) {
						refInj[n] = v
					}
				}
				for _, r := range c.Rules {
					env := ref.NewEnv(refInj, r)
					env.OnBin = func(op string, l, rv ref.Val) {
						lvl := precLevel(op)
						if lvl == "md" || lvl == "pm" || lvl == "cmp" {
							x.Class(fmt.Sprintf("kinds:%s:%c%c", lvl, l.C, rv.C))
							if l.C != rv.C && l.C != 's' && rv.C != 's' && l.C != 'b' && rv.C != 'b' {
								x.NonTrivial()
							}
							for _, v := range []ref.Val{l, rv} {
								if (v.C == 'i' && (v.I > 1<<53 || v.I < -(1<<53))) || (v.C == 'u' && v.U > 1<<53) {
									x.Class("operand-beyond-2^53:" + lvl)
									x.NonTrivial()
								}
							}
						}
					}
					want := env.Run()
					if classifyExpr(x, r.Body.Ret) {
						x.Class("implicit-grouping")
						x.NonTrivial()
					}
					for _, s := range r.Body.Stmts {
						classifyExpr(x, s.Val)
					}
					got, returned, gerr, pan := runOne(rb, r.Name)
					fc := c.Fault
					if fc == "" {
						fc = "well-typed"
					}
					switch {
					case pan != "":
						x.Violation("panic:"+panicClass(pan), "rule %q: Execute panicked (%s) instead of returning an error; expected %s\n%s", r.Name, truncate(pan, 200), describe(want), text)
					case want.Err != nil:
						if gerr == nil {
							x.Violation("value-for-error:"+want.Err.Class, "rule %q: reference semantics fail (%v) but gengine returned %v\n%s", r.Name, want.Err, got, text)
						} else if returned {
							// result entry despite the failure belongs to C11; not reported here
							x.Class("entry-despite-error")
						}
						x.Class("expected-error:" + want.Err.Class)
					default:
						if gerr != nil {
							if env.MayErr {
								x.Class("tolerated-undecided-operand-error")
								break
							}
							x.Violation("error-for-value", "rule %q: reference value %s but gengine failed: %s\n%s", r.Name, want.Val, truncate(gerr.Error(), 300), text)
							break
						}
						if !returned {
							x.Violation("no-result", "rule %q returned no value; reference value %s\n%s", r.Name, want.Val, text)
							break
						}
						gv := ref.FromInterface(got)
						if !ref.Same(gv, want.Val) {
							x.Violation("wrong-value:"+string(want.Val.C), "rule %q: gengine returned %s, reference semantics give %s for `%s`\n%s", r.Name, gv, want.Val, dsl.ExprString(r.Body.Ret), text)
						}
						x.Class("value-class:" + string(want.Val.C))
					}
					if x.Failed() {
						return
					}
				}
			}
		},
	})
}

func describe(o ref.Outcome) string {
	if o.Err != nil {
		return "error (" + o.Err.Error() + ")"
	}
	if o.Returned {
		return "value " + o.Val.String()
	}
	return "no return"
}

// panicClass gives a coarse, line-number-free class of a panic text for signatures.
func panicClass(p string) string {
	switch {
	case contains(p, "call of reflect.Value.Bool"):
		return "bool-of-nonbool"
	case contains(p, "index out of range"):
		return "index-out-of-range"
	case contains(p, "nil pointer"), contains(p, "zero Value"):
		return "nil"
	case contains(p, "nil map"):
		return "nil-map"
	case contains(p, "reflect"):
		return "reflect"
	}
	return "other"
}

func contains(s, sub string) bool {
	return len(sub) <= len(s) && (func() bool {
		for i := 0; i+len(sub) <= len(s); i++ {
			if s[i:i+len(sub)] == sub {
				return true
			}
		}
		return false
	})()
}

func TestC01(t *testing.T) { runProp(t, "C01") }
