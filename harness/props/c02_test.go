package props

import (
	"fmt"
	"math"
	"reflect"
	"sort"
	"strings"
	"testing"

	"pgregory.net/rapid"

	"verif/dsl"
	"verif/obs"
	"verif/ref"
)

// C02 - statements follow the reference control-flow and assignment semantics.

// StmtHost is injected by pointer as "W".
type StmtHost struct {
	N   int64            `json:"n"`
	U   uint64           `json:"u"`
	F   float64          `json:"f"`
	S   string           `json:"s"`
	B   bool             `json:"b"`
	Sl  []int64          `json:"sl"`
	Arr [4]int64         `json:"arr"`
	M   map[string]int64 `json:"m"`
}

// StmtWorld is the injected data of a C02 case.
type StmtWorld struct {
	W    StmtHost         `json:"w"`
	Sl   []int64          `json:"gsl"`
	M    map[string]int64 `json:"gm"`
	MI   map[int64]int64  `json:"gmi"`
	PArr [3]int64         `json:"parr"`
}

type C02Case struct {
	World StmtWorld `json:"world"`
	Rule  *dsl.Rule `json:"rule"`
	Lay   []byte    `json:"lay,omitempty"`
	// Huge: a forRange over a collection of Huge.N elements (the for statement is limited to
	// 10^4 passes by gengine, forRange is not)
	Huge *C02Huge `json:"huge,omitempty"`
	// Rebind: see C02Rebind
	Rebind *C02Rebind `json:"rebind,omitempty"`
}

// C02Rebind: a local that holds a pointer to an injected struct is bound, used for dotted reads
// and read-modify-writes, bound to another object and used again.
type C02Rebind struct {
	Init [3]int64     `json:"init"`
	Ops  []C02RebindOp `json:"ops"`
}

type C02RebindOp struct {
	Kind string `json:"kind"` // bind | addc | adds | sub | mul | read | cond | loop
	Obj  int    `json:"obj,omitempty"`
	K    int64  `json:"k,omitempty"`
}

type c02Obj struct {
	N int64
	M map[string]int64
	S []int64
}

func newC02Obj(n int64) *c02Obj {
	return &c02Obj{N: n, M: map[string]int64{"k": n + 100}, S: []int64{n + 200, 7}}
}

func checkC02Rebind(c *C02Case, x *Ctx) {
	rb := c.Rebind
	names := []string{"A", "B", "C"}
	objs := []*c02Obj{newC02Obj(rb.Init[0]), newC02Obj(rb.Init[1]), newC02Obj(rb.Init[2])}
	mobj := []*c02Obj{newC02Obj(rb.Init[0]), newC02Obj(rb.Init[1]), newC02Obj(rb.Init[2])} // the model's own objects
	model := []int64{rb.Init[0], rb.Init[1], rb.Init[2]}
	cur, acc, binds := 0, int64(0), 0
	var tm map[string]int64 // what the local t holds in the model
	var us []int64          // what the local u holds
	refs := 0
	var b strings.Builder
	b.WriteString("rule \"prog\" \"d\" salience 1\nbegin\n  acc = 0\n")
	for _, op := range rb.Ops {
		switch op.Kind {
		case "bind":
			fmt.Fprintf(&b, "  p = %s\n", names[op.Obj])
			cur = op.Obj
			binds++
		case "addc":
			fmt.Fprintf(&b, "  p.N += %d\n", op.K)
			model[cur] += op.K
		case "adds":
			fmt.Fprintf(&b, "  p.N = p.N + %d\n", op.K)
			model[cur] += op.K
		case "sub":
			fmt.Fprintf(&b, "  p.N -= %d\n", op.K)
			model[cur] -= op.K
		case "mul":
			fmt.Fprintf(&b, "  p.N *= %d\n", op.K)
			model[cur] *= op.K
		case "read":
			b.WriteString("  acc = acc + p.N\n")
			acc += model[cur]
		case "cond":
			fmt.Fprintf(&b, "  if p.N > %d {\n    acc = acc + 1\n  } else {\n    acc = acc - 1\n  }\n", op.K)
			if model[cur] > op.K {
				acc++
			} else {
				acc--
			}
		case "grabm":
			fmt.Fprintf(&b, "  t = %s.M\n", names[op.Obj])
			tm = mobj[op.Obj].M
		case "swapm":
			o2 := (op.Obj + 1 + int(op.K+9)%2) % 3
			fmt.Fprintf(&b, "  %s.M = %s.M\n", names[op.Obj], names[o2])
			mobj[op.Obj].M = mobj[o2].M
			refs++
		case "setm":
			fmt.Fprintf(&b, "  %s.M[\"k\"] = %d\n", names[op.Obj], op.K)
			mobj[op.Obj].M["k"] = op.K
		case "readm":
			if tm == nil {
				continue
			}
			b.WriteString("  acc = acc + t[\"k\"]\n")
			acc += tm["k"]
		case "grabs":
			fmt.Fprintf(&b, "  u = %s.S\n", names[op.Obj])
			us = mobj[op.Obj].S
		case "swaps":
			o2 := (op.Obj + 1 + int(op.K+9)%2) % 3
			fmt.Fprintf(&b, "  %s.S = %s.S\n", names[op.Obj], names[o2])
			mobj[op.Obj].S = mobj[o2].S
			refs++
		case "sets":
			fmt.Fprintf(&b, "  %s.S[0] = %d\n", names[op.Obj], op.K)
			mobj[op.Obj].S[0] = op.K
		case "reads":
			if us == nil {
				continue
			}
			b.WriteString("  acc = acc + u[0]\n")
			acc += us[0]
		case "loop":
			fmt.Fprintf(&b, "  for i = 0; i < 3; i += 1 {\n    p.N += %d\n    acc = acc + p.N\n  }\n", op.K)
			for i := 0; i < 3; i++ {
				model[cur] += op.K
				acc += model[cur]
			}
		}
	}
	b.WriteString("  return acc\nend\n")
	text := b.String()
	x.Class("pointer-local-rebound")
	if binds >= 2 || refs > 0 {
		x.NonTrivial()
	}
	if refs > 0 {
		x.Class("map-or-slice-field-re-pointed-while-a-local-holds-the-old-one")
	}
	r, err := buildDSL(text, map[string]interface{}{"A": objs[0], "B": objs[1], "C": objs[2]})
	if err != nil {
		x.Violation("compile", "generated text was rejected: %v\n%s", err, text)
		return
	}
	got, returned, gerr, pan := runOne(r, "prog")
	if pan != "" || gerr != nil || !returned {
		x.Violation("rebind", "err=%v panic=%q returned=%v\n%s", gerr, truncate(pan, 200), returned, text)
		return
	}
	for i := range objs {
		if fmt.Sprint(objs[i].M) != fmt.Sprint(mobj[i].M) || fmt.Sprint(objs[i].S) != fmt.Sprint(mobj[i].S) {
			x.Violation("rebind", "%s.M=%v %s.S=%v, want %v and %v\n%s", names[i], objs[i].M, names[i], objs[i].S, mobj[i].M, mobj[i].S, text)
			return
		}
	}
	if fmt.Sprint(got) != fmt.Sprint(acc) || objs[0].N != model[0] || objs[1].N != model[1] || objs[2].N != model[2] {
		x.Violation("rebind", "a local holding a pointer to an injected struct, re-bound %d times: returned %v, A.N=%d B.N=%d C.N=%d; want %d, %d %d %d\n%s", binds-1, got, objs[0].N, objs[1].N, objs[2].N, acc, model[0], model[1], model[2], text)
	}
}

type C02Huge struct {
	N    int    `json:"n"`
	Coll string `json:"coll"` // slice / array / map / local (a local bound to the injected slice)
	Stop string `json:"stop"` // none / break / return / continue
	K    int    `json:"k"`    // the element at which Stop applies
	Mul  int64  `json:"mul"`
}

const c02HugeArr = 16390

type c02Out struct{ N int64 }

// the array is ranged as a field of a pointer-injected struct (forRange over a pointer to an
// array is outside the statement semantics gengine documents)
type c02BigHost struct{ Arr [c02HugeArr]int64 }

// checkC02Huge: count, sum and stop position of a forRange over a big collection against the
// directly computed values.
func checkC02Huge(c *C02Case, x *Ctx) {
	h := c.Huge
	n := h.N
	if h.Coll == "array" {
		n = c02HugeArr
	}
	k := h.K % n
	vals := make([]int64, n)
	for i := range vals {
		vals[i] = (int64(i)*h.Mul)%1000 - 300
	}
	out := &c02Out{}
	inj := map[string]interface{}{"out": out}
	coll, key := "big", "i"
	switch h.Coll {
	case "array":
		bh := &c02BigHost{}
		copy(bh.Arr[:], vals)
		inj["H"] = bh
		coll = "H.Arr"
	case "map":
		m := make(map[int64]int64, n)
		for i, v := range vals {
			m[int64(i)] = v
		}
		inj["big"] = m
	default:
		inj["big"] = vals
	}
	pre := ""
	if h.Coll == "local" {
		pre, coll = "  loc = big\n", "loc"
	}
	stop := ""
	switch h.Stop {
	case "break":
		stop = fmt.Sprintf("    if %s == %d {\n      break\n    }\n", key, k)
	case "return":
		stop = fmt.Sprintf("    if %s == %d {\n      out.N = cnt\n      return sum\n    }\n", key, k)
	case "continue":
		stop = fmt.Sprintf("    if %s < %d {\n      continue\n    }\n", key, k)
	}
	text := fmt.Sprintf("rule \"prog\" \"d\" salience 1\nbegin\n  cnt = 0\n  sum = 0\n%s  forRange %s := %s {\n%s    cnt = cnt + 1\n    sum = sum + %s[%s]\n  }\n  out.N = cnt\n  return sum\nend\n", pre, key, coll, stop, coll, key)
	var wantCnt, wantSum int64
	for i, v := range vals {
		if (h.Stop == "break" || h.Stop == "return") && i == k && h.Coll != "map" {
			break
		}
		if h.Stop == "continue" && i < k {
			continue
		}
		wantCnt++
		wantSum += v
	}
	x.Class("huge-forrange:" + h.Coll + ":" + h.Stop)
	if n > 16384 {
		x.Class("huge-forrange-over-16384-elements")
	}
	x.NonTrivial()
	rb, err := buildDSL(text, inj)
	if err != nil {
		x.Violation("compile", "generated text was rejected: %v\n%s", err, text)
		return
	}
	got, returned, gerr, pan := runOne(rb, "prog")
	if pan != "" || gerr != nil || !returned {
		x.Violation("huge-forrange", "forRange over a %s of %d elements: err=%v panic=%q returned=%v\n%s", h.Coll, n, gerr, truncate(pan, 200), returned, text)
		return
	}
	if h.Coll == "map" && (h.Stop == "break" || h.Stop == "return") {
		// the position of key k in the iteration order is not determined: only the bounds are
		if out.N < 0 || out.N >= int64(n) {
			x.Violation("huge-forrange", "forRange over a map of %d entries with a %s at key %d counted %d passes\n%s", n, h.Stop, k, out.N, text)
		}
		return
	}
	if out.N != wantCnt || fmt.Sprint(got) != fmt.Sprint(wantSum) {
		x.Violation("huge-forrange", "forRange over a %s of %d elements (%s at %d): %d passes and sum %v, want %d passes and sum %d\n%s", h.Coll, n, h.Stop, k, out.N, got, wantCnt, wantSum, text)
	}
}

func copyStrMap(m map[string]int64) map[string]int64 {
	if m == nil {
		return nil
	}
	o := make(map[string]int64, len(m))
	for k, v := range m {
		o[k] = v
	}
	return o
}

// stmtObserver holds the recording functions injected next to the world.
type stmtObserver struct {
	log *obs.Log
	cnt int64 // state of nx()
}

func (o *stmtObserver) apis() map[string]interface{} {
	return map[string]interface{}{
		"tr":  func(n int64) { o.log.Add("T", "", n) },
		"lt":  func(a, b int64) bool { o.log.Add("LT", fmt.Sprintf("%d<%d", a, b), 0); return a < b },
		"one": func(n int64) int64 { o.log.Add("ONE", "", n); return 1 },
		// nx is stateful: it returns 1, 2, 3, ... (a condition built on it is true at most for
		// some evaluations, so evaluating a condition twice is observable)
		"nx": func() int64 { o.cnt++; o.log.Add("NX", "", o.cnt); return o.cnt },
		"rki": func(loop, k int64) { o.log.Add("K", fmt.Sprintf("%d:%d", loop, k), 0) },
		"rks": func(loop int64, k string) { o.log.Add("K", fmt.Sprintf("%d:%s", loop, k), 0) },
	}
}

// inject builds fresh, independent objects plus the observer functions.
func (w *StmtWorld) inject(o *stmtObserver) map[string]interface{} {
	h := w.W
	h.Sl = append([]int64(nil), w.W.Sl...)
	h.M = copyStrMap(w.W.M)
	mi := map[int64]int64{}
	for k, v := range w.MI {
		mi[k] = v
	}
	arr := w.PArr
	m := map[string]interface{}{
		"W": &h, "sl": append([]int64{}, w.Sl...), "m": copyStrMap(w.M), "mi": mi, "parr": &arr,
	}
	if m["m"].(map[string]int64) == nil {
		m["m"] = map[string]int64{}
	}
	for k, v := range o.apis() {
		m[k] = v
	}
	return m
}

var c02Keys = []string{"k1", "k2", "k3"}

func genStmtWorld(t *rapid.T) StmtWorld {
	small := func(l string) int64 { return int64(uni(t, l, -9, 9)) }
	w := StmtWorld{}
	w.W.N = small("W.N")
	w.W.U = uint64(uni(t, "W.U", 0, 9))
	w.W.F = float64(uni(t, "W.F", -8, 8)) / 2
	w.W.S = genStr(t, "W.S")
	w.W.B = rapid.Bool().Draw(t, "W.B")
	slen := func(l string) int {
		if pct(t, l+".short", 15) {
			return uni(t, l, 0, 2)
		}
		return uni(t, l, 3, 5)
	}
	for i, n := 0, slen("W.Sl.len"); i < n; i++ {
		w.W.Sl = append(w.W.Sl, small("W.Sl"))
	}
	for i := range w.W.Arr {
		w.W.Arr[i] = small("W.Arr")
	}
	w.W.M = map[string]int64{}
	for _, k := range c02Keys {
		if pct(t, "W.M."+k, 50) {
			w.W.M[k] = small("W.M.v")
		}
	}
	for i, n := 0, slen("sl.len"); i < n; i++ {
		w.Sl = append(w.Sl, small("sl"))
	}
	w.M = map[string]int64{}
	for _, k := range c02Keys {
		if pct(t, "m."+k, 50) {
			w.M[k] = small("m.v")
		}
	}
	w.MI = map[int64]int64{}
	for k := int64(0); k < 4; k++ {
		if pct(t, fmt.Sprintf("mi.%d", k), 50) {
			w.MI[k*3-3] = small("mi.v")
		}
	}
	for i := range w.PArr {
		w.PArr[i] = small("parr")
	}
	// edge values of the initial data: containers whose elements are all zero values
	if pct(t, "zero_arrays", 12) {
		w.W.Arr = [4]int64{}
		w.PArr = [len(w.PArr)]int64{}
	}
	if pct(t, "zero_slices", 8) {
		for i := range w.W.Sl {
			w.W.Sl[i] = 0
		}
		for i := range w.Sl {
			w.Sl[i] = 0
		}
	}
	return w
}

// stmtGen generates statement trees.
type stmtGen struct {
	t      *rapid.T
	eg     *exprGen
	def    map[string]bool // definitely assigned locals
	maybe  map[string]bool // assigned on some path
	loopV  []string        // loop / key variables in scope (class int)
	strKV  []string        // string key variables in scope
	nTr    int
	nLoop  int
	budget int
	// collLocals: locals holding a whole collection (name -> "slice" | "map"); they may be
	// undefined on some paths (reference: error)
	collLocals map[string]string
	collStored bool
	statefulCond bool
	after        *dsl.Stmt // a statement that has to follow the one just generated
}

var c02Locals = map[byte][]string{'i': {"a", "b", "c", "d"}, 's': {"s", "u"}, 'b': {"p", "q"}, 'f': {"x"}}

func (g *stmtGen) lbl(s string) string { return g.eg.lbl(s) }

// readLocal picks a local of the class to read: usually a definitely assigned one,
// sometimes one that is only assigned on some path (function scope: defined iff that
// path ran), rarely a never-assigned one (reference: error).
func (g *stmtGen) readLocal(class byte) *dsl.Expr {
	names := c02Locals[class]
	if len(names) == 0 {
		return nil
	}
	var def, may []string
	for _, n := range names {
		if g.def[n] {
			def = append(def, n)
		} else if g.maybe[n] {
			may = append(may, n)
		}
	}
	switch {
	case len(may) > 0 && pct(g.t, g.lbl("read_maybe"), 12):
		return dsl.Var(may[uni(g.t, g.lbl("may"), 0, len(may)-1)])
	case len(def) > 0:
		return dsl.Var(def[uni(g.t, g.lbl("def"), 0, len(def)-1)])
	case pct(g.t, g.lbl("read_undef"), 2):
		return dsl.Var(names[0])
	}
	return nil
}

func (g *stmtGen) intKey(n int) *dsl.Expr {
	if len(g.loopV) > 0 && pct(g.t, g.lbl("varkey"), 25) {
		return dsl.Var(g.loopV[uni(g.t, g.lbl("loopv"), 0, len(g.loopV)-1)])
	}
	hi := n - 1
	if pct(g.t, g.lbl("oob"), 3) {
		hi = n + 1
	}
	if hi < 0 {
		hi = 0
	}
	return dsl.Int(int64(uni(g.t, g.lbl("idx"), 0, hi)))
}

func (g *stmtGen) strKey() *dsl.Expr {
	if len(g.strKV) > 0 && pct(g.t, g.lbl("varkey"), 40) {
		return dsl.Var(g.strKV[uni(g.t, g.lbl("skv"), 0, len(g.strKV)-1)])
	}
	return dsl.Str(c02Keys[uni(g.t, g.lbl("key"), 0, len(c02Keys)-1)])
}

// intCell is an injected int64 cell (readable and writable).
func (g *stmtGen) intCell() *dsl.Expr {
	switch uni(g.t, g.lbl("cell"), 0, 7) {
	case 0, 1:
		return dsl.Var("W.N")
	case 2:
		return dsl.Index("sl", g.intKey(3))
	case 3:
		return dsl.Index("W.Sl", g.intKey(3))
	case 4:
		return dsl.Index("W.Arr", g.intKey(4))
	case 5:
		return dsl.Index("m", g.strKey())
	case 6:
		return dsl.Index("W.M", g.strKey())
	}
	if pct(g.t, g.lbl("parr"), 50) {
		return dsl.Index("parr", g.intKey(3))
	}
	return dsl.Index("mi", dsl.Int(int64(uni(g.t, g.lbl("mik"), -1, 3)*3)))
}

// atom supplies C02-specific atoms to the expression generator.
func (g *stmtGen) atom(class byte) *dsl.Expr {
	t := g.t
	if pct(t, g.lbl("local"), 45) {
		if e := g.readLocal(class); e != nil {
			return e
		}
	}
	switch class {
	case 'i':
		switch uni(t, g.lbl("iatom"), 0, 5) {
		case 0, 1, 2:
			return dsl.Int(int64(uni(t, g.lbl("ilit"), -5, 9)))
		case 3:
			if len(g.loopV) > 0 {
				return dsl.Var(g.loopV[uni(t, g.lbl("lv"), 0, len(g.loopV)-1)])
			}
		}
		return g.intCell()
	case 'u':
		return dsl.Var("W.U")
	case 'f':
		if pct(t, g.lbl("flit"), 50) {
			return dsl.Real(float64(uni(t, g.lbl("fval"), -8, 8)) / 4)
		}
		return dsl.Var("W.F")
	case 's':
		if pct(t, g.lbl("slit"), 60) {
			return dsl.Str(genStr(t, g.lbl("sval")))
		}
		return dsl.Var("W.S")
	}
	if pct(t, g.lbl("blit"), 50) {
		return dsl.Bool(rapid.Bool().Draw(t, g.lbl("bval")))
	}
	return dsl.Var("W.B")
}

func (g *stmtGen) expr(class byte, depth int) *dsl.Expr { return g.eg.expr(class, depth) }

func (g *stmtGen) trace() *dsl.Stmt {
	g.nTr++
	return dsl.CallStmt(dsl.Call("tr", dsl.Int(int64(g.nTr))))
}

var compoundOps = []string{"+=", "-=", "*=", "/="}

func (g *stmtGen) assignStmt() *dsl.Stmt {
	t := g.t
	switch uni(t, g.lbl("akind"), 0, 9) {
	case 0, 1, 2, 3: // int local
		names := c02Locals['i']
		n := names[uni(t, g.lbl("lname"), 0, len(names)-1)]
		if (g.def[n] || g.maybe[n]) && pct(t, g.lbl("compound"), 45) {
			op := compoundOps[uni(t, g.lbl("cop"), 0, 3)]
			v := g.expr('i', 1)
			if op == "/=" {
				v = dsl.Int(int64(uni(t, g.lbl("div"), 1, 4)))
			}
			return dsl.Assign(dsl.Var(n), op, v)
		}
		s := dsl.Assign(dsl.Var(n), []string{"=", ":="}[uni(t, g.lbl("aop"), 0, 1)], g.expr('i', uni(t, g.lbl("d"), 0, 2)))
		g.def[n] = true
		return s
	case 4: // string / bool / float local
		cl := []byte{'s', 'b', 'f'}[uni(t, g.lbl("cl"), 0, 2)]
		names := c02Locals[cl]
		n := names[uni(t, g.lbl("lname"), 0, len(names)-1)]
		if cl == 's' && g.def[n] && pct(t, g.lbl("compound"), 40) {
			return dsl.Assign(dsl.Var(n), "+=", g.expr('s', 0))
		}
		s := dsl.Assign(dsl.Var(n), "=", g.expr(cl, uni(t, g.lbl("d"), 0, 2)))
		g.def[n] = true
		return s
	case 5, 6, 7: // injected int cell
		cell := g.intCell()
		if pct(t, g.lbl("compound"), 55) {
			op := compoundOps[uni(t, g.lbl("cop"), 0, 3)]
			v := g.expr('i', 1)
			if op == "/=" {
				v = dsl.Int(int64(uni(t, g.lbl("div"), 1, 4)))
			}
			return dsl.Assign(cell, op, v)
		}
		return dsl.Assign(cell, "=", g.expr('i', uni(t, g.lbl("d"), 0, 2)))
	case 8: // other injected fields
		switch uni(t, g.lbl("fld"), 0, 3) {
		case 0:
			if pct(t, g.lbl("compound"), 50) {
				return dsl.Assign(dsl.Var("W.S"), "+=", g.expr('s', 0))
			}
			return dsl.Assign(dsl.Var("W.S"), "=", g.expr('s', 1))
		case 1:
			return dsl.Assign(dsl.Var("W.B"), "=", g.expr('b', 1))
		case 2:
			if pct(t, g.lbl("compound"), 50) {
				return dsl.Assign(dsl.Var("W.F"), compoundOps[uni(t, g.lbl("cop"), 0, 2)], dsl.Real(float64(uni(t, g.lbl("fv"), 1, 8))/2))
			}
			return dsl.Assign(dsl.Var("W.F"), "=", g.expr('f', 1))
		default:
			if pct(t, g.lbl("compound"), 50) {
				return dsl.Assign(dsl.Var("W.U"), []string{"+=", "*="}[uni(t, g.lbl("cop"), 0, 1)], dsl.Int(int64(uni(t, g.lbl("uv"), 0, 5))))
			}
			return dsl.Assign(dsl.Var("W.U"), "=", dsl.Int(int64(uni(t, g.lbl("uv"), 0, 20))))
		}
	}
	return g.trace()
}

// collStmt: locals that hold a whole slice / map read from injected data, and stores of a
// whole collection into a field. After `t = W.Sl; W.Sl = sl` the local t must still be the
// old slice (a local binds the value, not the field it was read from).
func (g *stmtGen) collStmt() *dsl.Stmt {
	t := g.t
	slSrc := []string{"W.Sl", "W.Sl", "sl"}
	mSrc := []string{"W.M", "W.M", "m"}
	// steer towards the sequence bind -> whole-collection store -> use of the local
	ck := uni(t, g.lbl("collkind"), 0, 4)
	switch {
	case len(g.collLocals) == 0:
		ck = uni(t, g.lbl("collbind"), 0, 1)
	case !g.collStored && pct(t, g.lbl("collstore"), 60):
		ck = uni(t, g.lbl("collstorekind"), 2, 3)
		g.collStored = true
	case g.collStored && pct(t, g.lbl("colluse"), 60):
		ck = 4
	}
	switch ck {
	case 0:
		n := []string{"ls1", "ls2"}[uni(t, g.lbl("lsn"), 0, 1)]
		g.collLocals[n] = "slice"
		src := slSrc[uni(t, g.lbl("lss"), 0, 2)]
		for k, kind := range g.collLocals {
			if kind == "slice" && k != n && pct(t, g.lbl("fromlocal"), 25) {
				src = k
			}
		}
		return dsl.Assign(dsl.Var(n), "=", dsl.Var(src))
	case 1:
		n := "lm1"
		g.collLocals[n] = "map"
		return dsl.Assign(dsl.Var(n), "=", dsl.Var(mSrc[uni(t, g.lbl("lms"), 0, 2)]))
	case 2: // whole-slice store into the field
		src := "sl"
		for k, kind := range g.collLocals {
			if kind == "slice" && pct(t, g.lbl("fromlocal"), 60) {
				src = k
			}
		}
		return dsl.Assign(dsl.Var("W.Sl"), "=", dsl.Var(src))
	case 3: // whole-map store into the field
		src := "m"
		for k, kind := range g.collLocals {
			if kind == "map" && pct(t, g.lbl("fromlocal"), 60) {
				src = k
			}
		}
		return dsl.Assign(dsl.Var("W.M"), "=", dsl.Var(src))
	}
	// read an element of a collection local into an int local / report it
	for k, kind := range g.collLocals {
		if kind == "slice" {
			g.def["a"] = true
			return dsl.Assign(dsl.Var("a"), "=", dsl.Index(k, g.intKey(3)))
		}
		if kind == "map" {
			g.def["a"] = true
			return dsl.Assign(dsl.Var("a"), "=", dsl.Index(k, g.strKey()))
		}
	}
	return g.trace()
}

func (g *stmtGen) cond() *dsl.Expr {
	// conditions are often true so that several branches of a chain are simultaneously true
	switch uni(g.t, g.lbl("ckind"), 0, 4) {
	case 0:
		return dsl.Bool(true)
	case 1:
		return dsl.Bool(rapid.Bool().Draw(g.t, g.lbl("cval")))
	case 2:
		if pct(g.t, g.lbl("cstate"), 50) {
			// a condition on the stateful counter: every evaluation is observed and changes the next one
			g.statefulCond = true
			k := dsl.Int(int64(uni(g.t, g.lbl("cnxk"), 1, 4)))
			if pct(g.t, g.lbl("cnxlt"), 30) {
				return dsl.Call("lt", dsl.Call("nx"), k)
			}
			return dsl.Bin([]string{"==", "<", ">=", "!="}[uni(g.t, g.lbl("cnxop"), 0, 3)], dsl.Call("nx"), k)
		}
	}
	return g.expr('b', uni(g.t, g.lbl("cdepth"), 1, 2))
}

func (g *stmtGen) saveScope() (map[string]bool, map[string]bool) {
	d, m := map[string]bool{}, map[string]bool{}
	for k := range g.def {
		d[k] = true
	}
	for k := range g.maybe {
		m[k] = true
	}
	return d, m
}

// nested generates a block in a nested scope position: locals assigned inside become
// "maybe assigned" outside.
func (g *stmtGen) nested(depth int, inLoop bool, f func() *dsl.Block) *dsl.Block {
	d0, _ := g.saveScope()
	b := f()
	for k := range g.def {
		if !d0[k] {
			g.maybe[k] = true
		}
	}
	g.def = d0
	return b
}

func (g *stmtGen) block(depth int, inLoop bool, maxStmts int) *dsl.Block {
	t := g.t
	b := &dsl.Block{}
	n := uni(t, g.lbl("nstmts"), 1, maxStmts)
	for i := 0; i < n && g.budget > 0; i++ {
		g.budget--
		b.Stmts = append(b.Stmts, g.stmt(depth, inLoop))
		if g.after != nil {
			b.Stmts = append(b.Stmts, g.after)
			g.after = nil
		}
		if pct(t, g.lbl("tr_after"), 60) {
			b.Stmts = append(b.Stmts, g.trace())
		}
	}
	retP := 6
	if depth > 0 {
		retP = 14
	}
	if pct(t, g.lbl("ret"), retP) {
		b.HasRet = true
		if pct(t, g.lbl("retval"), 75) {
			b.Ret = g.expr([]byte{'i', 'i', 's', 'b'}[uni(t, g.lbl("retclass"), 0, 3)], 1)
		}
	}
	return b
}

func (g *stmtGen) stmt(depth int, inLoop bool) *dsl.Stmt {
	t := g.t
	k := uni(t, g.lbl("skind"), 0, 19)
	if inLoop && k < 17 && pct(t, g.lbl("loopctl"), 18) {
		k = 18
	}
	if inLoop && depth < 3 && k < 10 && pct(t, g.lbl("nestloop"), 12) {
		k = 13
	}
	if depth >= 3 && k >= 10 && k <= 16 {
		k = 0
	}
	if k <= 7 && pct(t, g.lbl("coll_local"), 14) {
		return g.collStmt()
	}
	switch {
	case k <= 7:
		return g.assignStmt()
	case k <= 9:
		return g.trace()
	case k <= 12: // if
		s := &dsl.Stmt{K: dsl.SIf, Cond: g.cond()}
		s.Then = g.nested(depth, inLoop, func() *dsl.Block { return g.block(depth+1, inLoop, 3) })
		ne := 0
		if pct(t, g.lbl("haselseif"), 50) {
			ne = uni(t, g.lbl("nelseif"), 1, 3)
		}
		for i := 0; i < ne; i++ {
			c := g.cond()
			body := g.nested(depth, inLoop, func() *dsl.Block { return g.block(depth+1, inLoop, 2) })
			s.ElseIfs = append(s.ElseIfs, dsl.ElseIf{Cond: c, Body: body})
		}
		if pct(t, g.lbl("haselse"), 50) {
			s.Else = g.nested(depth, inLoop, func() *dsl.Block { return g.block(depth+1, inLoop, 2) })
		}
		return s
	case k <= 14: // for
		g.nLoop++
		v := fmt.Sprintf("i%d", g.nLoop)
		bound := int64(uni(t, g.lbl("bound"), 0, 5))
		s := &dsl.Stmt{K: dsl.SFor, LoopID: g.nLoop}
		s.Init = dsl.Assign(dsl.Var(v), "=", dsl.Int(int64(uni(t, g.lbl("init"), 0, 1))))
		if pct(t, g.lbl("rec_cond"), 50) {
			s.Cond = dsl.Call("lt", dsl.Var(v), dsl.Int(bound))
		} else {
			s.Cond = dsl.Bin("<", dsl.Var(v), dsl.Int(bound))
		}
		if pct(t, g.lbl("rec_step"), 50) {
			s.Step = dsl.Assign(dsl.Var(v), "+=", dsl.Call("one", dsl.Int(int64(g.nLoop))))
		} else {
			s.Step = dsl.Assign(dsl.Var(v), "+=", dsl.Int(int64(uni(t, g.lbl("stepv"), 1, 2))))
		}
		g.loopV = append(g.loopV, v)
		s.Body = g.nested(depth, true, func() *dsl.Block {
			b := g.block(depth+1, true, 3)
			if pct(t, g.lbl("fwd"), 15) {
				b.Stmts = append(b.Stmts, dsl.Assign(dsl.Var(v), "+=", dsl.Int(1)))
			}
			return b
		})
		g.loopV = g.loopV[:len(g.loopV)-1]
		g.maybe[v] = true
		return s
	case k <= 16: // forRange
		g.nLoop++
		id := g.nLoop
		v := fmt.Sprintf("k%d", id)
		colls := []struct {
			name string
			str  bool
		}{{"sl", false}, {"W.Sl", false}, {"W.Arr", false}, {"m", true}, {"W.M", true}, {"mi", false}}
		for k, kind := range g.collLocals {
			colls = append(colls, struct {
				name string
				str  bool
			}{k, kind == "map"})
		}
		sort.Slice(colls, func(i, j int) bool { return colls[i].name < colls[j].name })
		cl := colls[uni(t, g.lbl("coll"), 0, len(colls)-1)]
		s := &dsl.Stmt{K: dsl.SForRange, LoopID: id, KeyVar: v, Coll: cl.name}
		if !cl.str && cl.name != "mi" && pct(t, g.lbl("silentkey"), 25) {
			// the body never mentions the key; the key is an ordinary local that holds the last
			// index after the loop and may be read by later statements
			s.Body = g.nested(depth, true, func() *dsl.Block { return g.block(depth+1, true, 3) })
			g.after = dsl.CallStmt(dsl.Call("tr", dsl.Var(v))) // the key, read after the loop
			return s
		}
		if cl.str {
			g.strKV = append(g.strKV, v)
		} else if cl.name != "mi" {
			g.loopV = append(g.loopV, v)
		}
		s.Body = g.nested(depth, true, func() *dsl.Block {
			b := g.block(depth+1, true, 3)
			var first *dsl.Stmt
			if cl.str {
				first = dsl.CallStmt(dsl.Call("rks", dsl.Int(int64(id)), dsl.Var(v)))
			} else {
				first = dsl.CallStmt(dsl.Call("rki", dsl.Int(int64(id)), dsl.Var(v)))
			}
			b.Stmts = append([]*dsl.Stmt{first}, b.Stmts...)
			return b
		})
		if cl.str {
			g.strKV = g.strKV[:len(g.strKV)-1]
		} else if cl.name != "mi" {
			g.loopV = g.loopV[:len(g.loopV)-1]
		}
		return s
	default: // break / continue (only inside loops, under arbitrary if nesting)
		if !inLoop {
			return g.assignStmt()
		}
		var bc *dsl.Stmt
		if pct(t, g.lbl("brk"), 50) {
			bc = &dsl.Stmt{K: dsl.SBreak}
		} else {
			bc = &dsl.Stmt{K: dsl.SContinue}
		}
		if pct(t, g.lbl("guarded"), 80) {
			return &dsl.Stmt{K: dsl.SIf, Cond: g.cond(), Then: &dsl.Block{Stmts: []*dsl.Stmt{g.trace(), bc}}}
		}
		return bc
	}
}

// deepSame compares two host values (NaN equals NaN).
func deepSame(a, b reflect.Value) bool {
	if a.IsValid() != b.IsValid() {
		return false
	}
	if !a.IsValid() {
		return true
	}
	if a.Type() != b.Type() {
		return false
	}
	switch a.Kind() {
	case reflect.Float32, reflect.Float64:
		return a.Float() == b.Float() || (math.IsNaN(a.Float()) && math.IsNaN(b.Float()))
	case reflect.Ptr, reflect.Interface:
		if a.IsNil() || b.IsNil() {
			return a.IsNil() == b.IsNil()
		}
		return deepSame(a.Elem(), b.Elem())
	case reflect.Struct:
		for i := 0; i < a.NumField(); i++ {
			if a.Type().Field(i).PkgPath != "" {
				continue // unexported (harness-internal) field
			}
			if !deepSame(a.Field(i), b.Field(i)) {
				return false
			}
		}
		return true
	case reflect.Slice, reflect.Array:
		if a.Len() != b.Len() {
			return false
		}
		for i := 0; i < a.Len(); i++ {
			if !deepSame(a.Index(i), b.Index(i)) {
				return false
			}
		}
		return true
	case reflect.Map:
		if a.Len() != b.Len() {
			return false
		}
		for _, k := range a.MapKeys() {
			bv := b.MapIndex(k)
			if !bv.IsValid() || !deepSame(a.MapIndex(k), bv) {
				return false
			}
		}
		return true
	case reflect.Func:
		return true
	}
	if !a.CanInterface() || !b.CanInterface() {
		return true
	}
	return a.Interface() == b.Interface()
}

// worldDiff lists the injected names whose host values differ.
func worldDiff(a, b map[string]interface{}) []string {
	var out []string
	for k, av := range a {
		if !deepSame(reflect.ValueOf(av), reflect.ValueOf(b[k])) {
			out = append(out, fmt.Sprintf("%s: gengine=%s reference=%s", k, showHost(av), showHost(b[k])))
		}
	}
	sort.Strings(out)
	return out
}

func showHost(v interface{}) string {
	rv := reflect.ValueOf(v)
	if rv.Kind() == reflect.Ptr && !rv.IsNil() {
		return fmt.Sprintf("&%+v", rv.Elem().Interface())
	}
	return fmt.Sprintf("%+v", v)
}

func traceStrings(ev []obs.Event) []string {
	out := make([]string, len(ev))
	for i, e := range ev {
		out[i] = fmt.Sprintf("%s(%s,%d)", e.Kind, e.Name, e.Arg)
	}
	return out
}

// mapOrderFrom builds the NextMapKey provider from the observed trace.
func mapOrderFrom(observed []obs.Event) func(loop int, remaining []reflect.Value) (reflect.Value, bool) {
	var ks []string
	for _, e := range observed {
		if e.Kind == "K" {
			ks = append(ks, e.Name)
		}
	}
	pos := 0
	return func(loop int, remaining []reflect.Value) (reflect.Value, bool) {
		// K events of slice/array loops are consumed as the reference emits them; find the
		// next observed K event of this loop at or after the current position.
		for pos < len(ks) {
			parts := strings.SplitN(ks[pos], ":", 2)
			if parts[0] != fmt.Sprint(loop) {
				pos++
				continue
			}
			key := parts[1]
			pos++
			for _, r := range remaining {
				if fmt.Sprint(r.Interface()) == key {
					return r, true
				}
			}
			return reflect.ValueOf(key), true // not in the map / visited twice: reported by the caller
		}
		return reflect.Value{}, false
	}
}

func init() {
	register(&Prop{
		ID:   "C02",
		Rule: "one rule per case: statement trees (depth <= 4, <= 30 statements) over int/bool/string/float locals and an injected world (pointer struct with int64/uint64/float64/string/bool fields, slice, array, string-keyed map; directly injected slice, maps, pointer array): plain and compound assignments to locals, fields and elements, if with 0-3 else-if and optional else (conditions often simultaneously true), for loops with literal bounds <= 5 whose condition / step may be recording functions, forRange over slices, arrays and maps (possibly empty), break/continue under arbitrary if nesting inside loops, return (bare or with value) at the end of any block at any depth, reads of locals assigned only on some path, tr(n) observer calls everywhere; oracle = reference interpreter replaying the same program (map iteration order taken from the observed run): exact observer trace, returned flag and value, error-ness and the complete final host world must agree. 1% of the cases are a forRange over a slice, array, map or slice-valued local of 1000-120000 elements (16383/16384/16385/32768/65537 preferred) with an optional break/return/continue, checked against the directly computed pass count and sum. 3% of the cases bind a local to one of three pointer-injected structs, read and read-modify-write a field through the local (+= -= *=, plain assignment, inside if and for), re-bind the local to another object and go on, and bind further locals to map- and slice-typed fields of those structs that are re-pointed (`A.M = B.M`) or mutated afterwards; the returned accumulator and the three objects are compared with the directly computed values. Conditions are pure expressions or comparisons on a stateful observed counter nx() (every evaluation of a condition is visible in the trace and changes the next one). Non-trivial: the reference execution hit continue in a for, break in an inner loop, a return that skips later statements, an else-if/else branch, a compound assignment on an injected target, or a read of a local assigned in a nested block; distinct by case hash",
		New:  func() interface{} { return &C02Case{} },
		Gen: func(t *rapid.T) interface{} {
			if pct(t, "rebind", 3) {
				rb := &C02Rebind{}
				for i := range rb.Init {
					rb.Init[i] = int64(uni(t, fmt.Sprintf("rebind_init%d", i), -50, 50))
				}
				kinds := []string{"bind", "bind", "addc", "adds", "sub", "mul", "read", "read", "cond", "loop", "grabm", "swapm", "setm", "readm", "readm", "grabs", "swaps", "sets", "reads", "reads"}
				n := uni(t, "rebind_nops", 4, 14)
				for i := 0; i < n; i++ {
					k := kinds[uni(t, fmt.Sprintf("rebind_kind%d", i), 0, len(kinds)-1)]
					if i == 0 {
						k = "bind"
					}
					rb.Ops = append(rb.Ops, C02RebindOp{Kind: k, Obj: uni(t, fmt.Sprintf("rebind_obj%d", i), 0, 2), K: int64(uni(t, fmt.Sprintf("rebind_k%d", i), -9, 9))})
				}
				return &C02Case{Rebind: rb}
			}
			if pct(t, "huge_forrange", 1) {
				n := []int{16383, 16384, 16385, 32768, 65537, 0}[uni(t, "huge_n_kind", 0, 5)]
				if n == 0 {
					n = uni(t, "huge_n", 1000, 120000)
				}
				return &C02Case{Huge: &C02Huge{N: n, Coll: []string{"slice", "array", "map", "local"}[uni(t, "huge_coll", 0, 3)],
					Stop: []string{"none", "none", "break", "return", "continue"}[uni(t, "huge_stop", 0, 4)], K: uni(t, "huge_k", 0, 1<<20), Mul: int64(uni(t, "huge_mul", 1, 997))}}
			}
			c := &C02Case{World: genStmtWorld(t)}
			g := &stmtGen{t: t, def: map[string]bool{}, maybe: map[string]bool{}, budget: 30, collLocals: map[string]string{}}
			g.eg = &exprGen{t: t, locals: map[byte][]string{}, faultAt: -1, parenP: 5}
			g.eg.custom = g.atom
			r := &dsl.Rule{Name: "prog", HasSal: true, Sal: 1}
			r.Body = g.block(0, false, 6)
			if !r.Body.HasRet && pct(t, "final_ret", 70) {
				r.Body.HasRet = true
				r.Body.Ret = g.expr('i', 1)
			}
			c.Rule = r
			c.Lay = genLayout(t, 20)
			return c
		},
		Check: func(ci interface{}, x *Ctx) {
			c := ci.(*C02Case)
			if c.Huge != nil {
				checkC02Huge(c, x)
				return
			}
			if c.Rebind != nil {
				checkC02Rebind(c, x)
				return
			}
			text, _ := dsl.PrintRules([]*dsl.Rule{c.Rule}, c.Lay)
			if tooCostly(x, text) {
				return
			}
			// dry run of the reference on a third copy of the world: programs that exceed the
			// step or string-size budget (e.g. a string doubled in nested loops) are skipped
			// before gengine is asked to run them
			{
				do := &stmtObserver{log: &obs.Log{}}
				denv := ref.NewEnv(c.World.inject(do), c.Rule)
				dres := denv.Run()
				if denv.Unspecified == "step budget" || (dres.Err != nil && dres.Err.Class == "budget") {
					x.Class("skipped-over-budget")
					return
				}
			}
			eo := &stmtObserver{log: &obs.Log{}}
			einj := c.World.inject(eo)
			rb, err := buildDSL(text, einj)
			if err != nil {
				x.Violation("compile", "generated text was rejected: %v\n%s", err, text)
				return
			}
			got, returned, gerr, pan := runOne(rb, c.Rule.Name)
			observed := eo.log.Snapshot()

			ro := &stmtObserver{log: &obs.Log{}}
			rinj := c.World.inject(ro)
			env := ref.NewEnv(rinj, c.Rule)
			env.NextMapKey = mapOrderFrom(observed)
			notes := map[string]bool{}
			env.Note = func(s string) { notes[s] = true }
			want := env.Run()
			if env.Unspecified != "" {
				x.Class("skipped-unspecified:" + env.Unspecified)
				return
			}
			if want.Err != nil && want.Err.Class == "budget" {
				x.Class("skipped-over-budget")
				return
			}
			if env.MayErr {
				x.Class("skipped-undecided-operand")
				return
			}
			for n := range notes {
				x.Class(n)
				x.NonTrivial()
			}
			if want.Err != nil {
				x.Class("expected-error:" + want.Err.Class)
			}
			fail := func(sig, f string, a ...interface{}) {
				x.Violation(sig, f+"\nprogram:\n%s\nobserved trace: %v\nreference trace: %v", append(a, text, traceStrings(observed), traceStrings(ro.log.Snapshot()))...)
			}
			if pan != "" {
				fail("panic:"+panicClass(pan), "Execute panicked: %s", truncate(pan, 200))
				return
			}
			if want.Err != nil && want.Err.Class == "maporder" {
				fail("forrange-keys", "forRange over a map: %s", want.Err.Msg)
				return
			}
			// the trace is compared first: it localises control-flow divergences best
			ot, rt := traceStrings(observed), traceStrings(ro.log.Snapshot())
			if strings.Join(ot, " ") != strings.Join(rt, " ") {
				i := 0
				for i < len(ot) && i < len(rt) && ot[i] == rt[i] {
					i++
				}
				fail("trace", "observer traces diverge at event %d", i)
				return
			}
			if (want.Err != nil) != (gerr != nil) {
				if want.Err != nil {
					fail("value-for-error:"+want.Err.Class, "reference semantics fail (%v) but gengine returned without error", want.Err)
				} else {
					fail("error-for-value", "gengine failed (%s) but the reference semantics succeed", truncate(gerr.Error(), 300))
				}
				return
			}
			if want.Err == nil {
				if want.Returned != returned {
					fail("returned-flag", "rule returned=%v (value %v), reference returned=%v (%s)", returned, got, want.Returned, want.Val)
					return
				}
				if want.Returned && !ref.Same(ref.FromInterface(got), want.Val) {
					fail("return-value", "rule returned %s, reference %s", ref.FromInterface(got), want.Val)
					return
				}
			}
			if d := worldDiff(einj, rinj); len(d) > 0 {
				fail("world", "final host state differs: %v", d)
			}
		},
	})
}

func TestC02(t *testing.T) { runProp(t, "C02") }
