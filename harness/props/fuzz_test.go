package props

import (
	"encoding/json"
	"os"
	"path/filepath"
	"testing"

	"pgregory.net/rapid"
)

// Native coverage-guided fuzz targets (thorough tier only, bounded by -test.fuzztime).
// The semantic oracle of the property is inside the target; a failing input is written to
// fail.json like any other violation, so the driver's replay path is the same.

func fuzzReport(t *testing.T, id string, c interface{}, x *Ctx) {
	kf := knownFindings()
	var fresh []Violation
	for _, v := range x.viol {
		if _, ok := kf[id+" "+v.Sig]; !ok {
			fresh = append(fresh, v)
		}
	}
	if len(fresh) == 0 {
		return
	}
	cj, _ := json.Marshal(c)
	writeJSON(filepath.Join(outDir(), "fail.json"), failFile{Prop: id, Case: cj, Violations: fresh, Extra: x.extra, Kind: "violation"})
	t.Fatalf("property %s violated: [%s] %s", id, fresh[0].Sig, fresh[0].Msg)
}

// FuzzC10 feeds raw bytes to the five compile entry points (oracle of C10).
func FuzzC10(f *testing.F) {
	f.Add([]byte(c10S0Text()))
	f.Add([]byte("rule \"n0\" \"d\" salience 2\nbegin\n  S ( @name )\n  a = 1 + 2 * 3\n  if a > 2 && !false { b = \"x\" } else { b = \"z\" }\n  return 100\nend\n"))
	f.Add([]byte("rule \"n1\" begin for i = 0 ; i < 2 ; i += 1 { a = i } forRange k := sl { a = sl [ k ] } conc { c = ok ( 1 ) O.Add ( 2 ) } return @id end"))
	f.Add([]byte("rule \"s0\" begin return 1 end rule \"s0\" begin return 2 end"))
	f.Add([]byte("rule \"x\" # begin end"))
	f.Add([]byte("RULE \"q\" \"d\" SALIENCE -9223372036854775808 BEGIN x = 1e999 / 0.0 m [ \"k\" ] = -1 RETURN End"))
	if dir := os.Getenv("VERIF_CORPUS"); dir != "" {
		files, _ := filepath.Glob(filepath.Join(dir, "*"))
		for _, fn := range files {
			if b, err := os.ReadFile(fn); err == nil && len(b) < 4096 {
				f.Add(b)
			}
		}
	}
	p := registry["C10"]
	c10Reuse = map[string]*c10Target{}
	f.Fuzz(func(t *testing.T, data []byte) {
		if len(data) > 2048 {
			return
		}
		c := &C10Case{Kind: "arbitrary", Text: data, State: "s0"}
		cj, _ := json.Marshal(c)
		currentCaseJSON = cj
		writeCurrent("C10", cj)
		x := &Ctx{Prop: "C10"}
		currentCtx = x
		p.Check(c, x)
		fuzzReport(t, "C10", c, x)
	})
}

// FuzzC01 drives the C01 generator from fuzzer-provided bytes (rapid.MakeFuzz), so that
// coverage guidance steers towards rare kind paths of the arithmetic and comparison code.
func FuzzC01(f *testing.F) {
	p := registry["C01"]
	f.Fuzz(rapid.MakeFuzz(func(rt *rapid.T) {
		c := p.Gen(rt)
		cj, _ := json.Marshal(c)
		currentCaseJSON = cj
		writeCurrent("C01", cj)
		x := &Ctx{Prop: "C01"}
		currentCtx = x
		p.Check(c, x)
		st.record(x, cj)
		if x.Failed() {
			writeJSON(filepath.Join(outDir(), "fail.json"), failFile{Prop: "C01", Case: cj, Violations: x.viol, Extra: x.extra, Kind: "violation"})
			rt.Fatalf("property C01 violated: [%s] %s", x.viol[0].Sig, x.viol[0].Msg)
		}
	}))
}
