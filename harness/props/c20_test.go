package props

import (
	"strings"
	"fmt"
	"regexp"
	"runtime"
	"sort"
	"strconv"
	"sync"
	"sync/atomic"
	"testing"

	"github.com/bilibili/gengine/builder"
	"github.com/bilibili/gengine/engine"
	"pgregory.net/rapid"

	"verif/dsl"
	"verif/gx"
	"verif/obs"
)

// C20 - error messages point at the line of the construct that failed.
type C20Case struct {
	Prog    FaultProgram `json:"prog"`
	NRules  int          `json:"nrules"`
	RuleIdx int          `json:"rule_idx"`
	Lay     []byte       `json:"lay,omitempty"`
	Lead    string       `json:"lead,omitempty"` // text before the first rule (blank lines, comments)
	// LeadLines > 0: that many empty lines precede Lead (texts of more than 65536 lines)
	LeadLines int `json:"lead_lines,omitempty"`
	// Recompile: 1 = the same rules were first installed by a full build from a text with
	// another layout and line offset, the text under test then arrives as an incremental
	// build; 2 = the same through a pool (construction, then incremental update). The
	// installed rule is the one compiled last, so positions refer to the last text.
	Recompile int `json:"recompile,omitempty"`
	// Twin: a second faulty rule (another text, another builder, other lines) is executed by
	// other engines at the same moments as the rule under test; each error must still cite
	// the lines of its own text.
	Twin *FaultProgram `json:"twin,omitempty"`
}

var lineRe = regexp.MustCompile(`(?i)\bline\s*:?\s*(-?\d+)`)

func genFaultProgram(t *rapid.T, only func(*faultSpec) bool) FaultProgram {
	for {
		fp := FaultProgram{Fault: uni(t, "fault", 0, len(faultCatalogue)-1), Place: uni(t, "place", 0, 31)}
		nw := uni(t, "nwraps", 0, 2)
		for i := 0; i < nw; i++ {
			fp.Wraps = append(fp.Wraps, uni(t, "wrap", 0, len(wrappers)-1))
		}
		fp.Pre = uni(t, "pre", 0, 3)
		fp.Post = uni(t, "post", 0, 2)
		if fp.feasible() && (only == nil || only(fp.spec())) {
			return fp
		}
		// infeasible combination: fall back to the always feasible placement
		fp.Place = 0
		if fp.feasible() && (only == nil || only(fp.spec())) {
			return fp
		}
	}
}

func fillerRule(k int) *dsl.Rule {
	return &dsl.Rule{Name: fmt.Sprintf("h%d", k), HasSal: true, Sal: int64(k), Body: &dsl.Block{Stmts: []*dsl.Stmt{
		tr(int64(100 + k)),
		dsl.Assign(dsl.Var("q"), "=", dsl.Bin("+", dsl.Int(1), dsl.Bin("*", dsl.Int(2), dsl.Int(3)))),
		{K: dsl.SIf, Cond: dsl.Bin(">", dsl.Var("q"), dsl.Int(0)), Then: &dsl.Block{Stmts: []*dsl.Stmt{tr(int64(200 + k))}}},
	}}}
}

func init() {
	register(&Prop{
		ID:   "C20",
		Rule: "multi-rule, multi-line texts (1-5 rules, line breaks, comments and blank lines between any two tokens) with exactly one faulty construct from the fault catalogue (arithmetic type faults and zero divisors, comparison and logic type faults, failing calls of all three kinds, failing assignments; element-read, forRange, missing-name, non-boolean-condition faults) at a generated place (assignment right-hand side, if / else-if / for condition, for init and step, return, call argument, conc child) under 0-2 enclosing statements (if, else, else-if, for, forRange); in 30% of the cases the same rules were installed before from a text with another layout and line offset (full build or pool construction) and the text under test arrives as an incremental build / incremental pool update, optionally after a rejected incremental batch; in 15% of the other cases a second faulty rule of another text fails at the same moments on separate engines and each error must cite its own text's lines; oracle: every `line <n>` cited in the error returned for that rule is the 1-based start line of the faulty node or of one of its ancestors up to the enclosing statement; must-cite classes cite at least one. Non-trivial: the faulty construct is not on the first line of its rule and the rule is not the first, or the construct spans >= 2 lines; distinct by case hash",
		New:  func() interface{} { return &C20Case{} },
		Gen: func(t *rapid.T) interface{} {
			c := &C20Case{Prog: genFaultProgram(t, nil)}
			c.NRules = uni(t, "nrules", 1, 5)
			c.RuleIdx = uni(t, "ruleidx", 0, c.NRules-1)
			n := uni(t, "laylen", 5, 40)
			c.Lay = make([]byte, n)
			for i := range c.Lay {
				c.Lay[i] = byte(uni(t, "lay", 0, 29))
				if pct(t, "lay_ext", 20) {
					c.Lay[i] = byte(uni(t, "lay_x", 100, 159)) // tabs, CR LF, keywords in upper / title case
				}
			}
			if pct(t, "plain_layout", 8) {
				c.Lay = nil
			}
			c.Lead = []string{"", "", "\n", "\n\n\n", "  \n\t\n", "// header comment\n", "\r\n\r\n", " "}[uni(t, "lead", 0, 7)]
			if pct(t, "long_text", 1) {
				c.LeadLines = []int{65530, 65534, 65535, 65536, 70000, 131080}[uni(t, "long_text_lines", 0, 5)]
			}
			if pct(t, "recompile", 30) {
				c.Recompile = uni(t, "recompile_kind", 1, 3)
			} else if pct(t, "twin", 15) {
				tw := genFaultProgram(t, func(s *faultSpec) bool { return s.OwnRecover })
				c.Twin = &tw
			}
			return c
		},
		Check: func(ci interface{}, x *Ctx) {
			c := ci.(*C20Case)
			spec := c.Prog.spec()
			body, node := c.Prog.Build()
			var rules []*dsl.Rule
			for k := 0; k < c.NRules; k++ {
				if k == c.RuleIdx {
					rules = append(rules, &dsl.Rule{Name: "faulty", HasDesc: true, Desc: "the faulty one", HasSal: true, Sal: 50, Body: body})
				} else {
					rules = append(rules, fillerRule(k))
				}
			}
			lead := c.Lead
			if c.LeadLines > 0 {
				lead = strings.Repeat("\n", c.LeadLines) + lead
				x.Class("text-of-more-than-65000-lines")
			}
			text, pr := dsl.PrintRulesLead(rules, c.Lay, lead)
			if tooCostly(x, text) {
				return
			}
			if len(c.Lead) > 1 {
				x.Class("text-starts-with-blank-or-comment-lines")
			}
			l := &obs.Log{}
			var rb *builder.RuleBuilder
			var pool *engine.GenginePool
			var err error
			switch c.Recompile {
			case 0:
				rb, err = buildDSL(text, faultInject(l))
			default:
				// an earlier version of the same text: other layout, three more lines in front
				old, _ := dsl.PrintRulesLead(rules, nil, "// an earlier version\n// of the same rules\n\n")
				x.Class("same-rules-compiled-before-at-another-line-offset")
				if c.Recompile == 1 || c.Recompile == 3 {
					rb, err = buildDSL(old, faultInject(l))
					if err == nil && c.Recompile == 3 {
						// a rejected incremental batch in between: a complete new rule of high
						// priority, then a broken one; it must leave nothing behind
						x.Class("rejected-incremental-batch-before-the-text-under-test")
						bad := "rule \"zz_new\" \"d\" salience 1000\nbegin\n  tr(900)\nend\nrule \"zz_broken\" \"d\" salience 1\nbegin\n  x = \nend\n"
						if berr := rb.BuildRuleWithIncremental(bad); berr == nil {
							x.Violation("bad-text-accepted", "an invalid incremental text was accepted:\n%s", bad)
							return
						}
					}
					if err == nil {
						err = rb.BuildRuleWithIncremental(text)
					}
				} else {
					pool, err = engine.NewGenginePool(1, 2, 1, old, faultInject(l))
					if err == nil {
						err = pool.UpdatePooledRulesIncremental(text)
					}
				}
			}
			if err != nil {
				x.Violation("compile", "generated text was rejected: %v\n%s", err, text)
				return
			}
			x.Class("fault:" + spec.Name)
			x.Class("place:" + c.Prog.placeName())
			x.Class("cite:" + spec.Cite)
			for _, w := range c.Prog.Wraps {
				x.Class("inside:" + wrappers[w%len(wrappers)])
			}
			var gerr error
			var pan string
			if pool != nil {
				res := gx.OnPool(pool, gx.Call{Method: "ExecuteSelectedRules", Names: []string{"faulty"}}, map[string]interface{}{}, nil)
				gerr, pan = res.Err, res.Panic
			} else {
				_, _, gerr, pan = runOne(rb, "faulty")
			}
			if pan != "" {
				// containment is C09's subject; without an error text there is nothing to check here
				x.Class("panic-no-error-text")
				return
			}
			if gerr == nil {
				x.Class("no-error-returned")
				return
			}
			A := allowedLines(pr, body, node)
			var allowed []int
			for k := range A {
				allowed = append(allowed, k)
			}
			sort.Ints(allowed)
			start, stop := pr.Start[node], pr.Stop[node]
			ruleStart := pr.Start[rules[c.RuleIdx]]
			if (start > ruleStart && c.RuleIdx > 0) || stop > start {
				x.NonTrivial()
			}
			if stop > start {
				x.Class("construct-spans-several-lines")
			}
			msg := gerr.Error()
			cites := lineRe.FindAllStringSubmatch(msg, -1)
			if len(cites) == 0 {
				x.Class("no-citation")
				if spec.Cite == "must" {
					x.Violation("no-citation:"+spec.Name+"/"+c.Prog.placeName(), "fault class %q must cite a source position but the error cites none: %s\n%s", spec.Name, truncate(msg, 300), numbered(text))
				}
				return
			}
			x.Class("cited")
			for _, m := range cites {
				n, _ := strconv.Atoi(m[1])
				if !A[n] {
					kind := "wrong-line"
					switch {
					case n == 0:
						kind = "line-0"
					case n == stop && stop != start:
						kind = "stop-line"
					case n == start-1:
						kind = "zero-based"
					case n == start-ruleStart+1 || n == start-ruleStart:
						kind = "rule-relative"
					}
					x.Violation(kind+":"+citeGroup(spec.Name), "error cites line %d, but the faulty construct (%s at %s) starts on line %d (allowed start lines of it and its enclosing constructs: %v): %s\n%s", n, spec.Name, c.Prog.placeName(), start, allowed, truncate(msg, 240), numbered(text))
					return
				}
			}
			if c.Twin != nil && rb != nil {
				c20Twin(x, c, rb, A, text)
			}
		},
	})
}

// c20Twin executes the rule under test and a second faulty rule of another text (eight blank
// lines in front, so that its lines differ) on separate engines at the same moments; every
// error must cite lines of its own text only.
func c20Twin(x *Ctx, c *C20Case, rb *builder.RuleBuilder, A map[int]bool, text string) {
	body2, node2 := c.Twin.Build()
	rules2 := []*dsl.Rule{{Name: "faulty2", HasDesc: true, Desc: "the other faulty one", HasSal: true, Sal: 7, Body: body2}}
	text2, pr2 := dsl.PrintRulesLead(rules2, nil, "\n\n\n\n\n\n\n\n")
	if tooCostly(x, text2) {
		return
	}
	rb2, err := buildDSL(text2, faultInject(&obs.Log{}))
	if err != nil {
		x.Violation("compile", "generated text was rejected: %v\n%s", err, text2)
		return
	}
	A2 := allowedLines(pr2, body2, node2)
	x.Class("another-faulty-rule-of-another-text-fails-at-the-same-moments")
	const rounds, per = 25, 2
	type out struct {
		own bool
		msg string
	}
	results := make(chan out, rounds*per*2)
	for r := 0; r < rounds; r++ {
		var ready, goFlag int32
		var wg sync.WaitGroup
		for k := 0; k < per*2; k++ {
			wg.Add(1)
			go func(k int) {
				defer wg.Done()
				b, name := rb, "faulty"
				if k%2 == 1 {
					b, name = rb2, "faulty2"
				}
				atomic.AddInt32(&ready, 1)
				for atomic.LoadInt32(&goFlag) == 0 {
				}
				_, _, gerr, pan := runOne(b, name)
				if pan == "" && gerr != nil {
					results <- out{k%2 == 0, gerr.Error()}
				}
			}(k)
		}
		for atomic.LoadInt32(&ready) < per*2 {
			runtime.Gosched()
		}
		atomic.StoreInt32(&goFlag, 1)
		wg.Wait()
	}
	close(results)
	for o := range results {
		allowed, which, other := A, "the rule under test", text
		if !o.own {
			allowed, which, other = A2, "the second faulty rule", text2
		}
		for _, m := range lineRe.FindAllStringSubmatch(o.msg, -1) {
			n, _ := strconv.Atoi(m[1])
			if !allowed[n] {
				x.Violation("foreign-line:concurrent-failures", "while two different faulty rules of two texts failed at the same moment on separate engines, the error of %s cites line %d, which is not a line of its faulty construct: %s\nits text:\n%s", which, n, truncate(o.msg, 240), numbered(other))
				return
			}
		}
	}
}

// citeGroup groups fault names for signatures (construct family).
func citeGroup(name string) string {
	for _, p := range []string{"index", "forrange", "arith", "div", "cmp", "logic", "not", "call", "store", "compound", "assign", "missing", "nil", "if", "else", "for", "break", "continue"} {
		if len(name) >= len(p) && name[:len(p)] == p {
			return p
		}
	}
	return name
}

func numbered(text string) string {
	out := ""
	n := 1
	line := ""
	for _, r := range text {
		if r == '\n' {
			out += fmt.Sprintf("%3d| %s\n", n, line)
			n++
			line = ""
			continue
		}
		line += string(r)
	}
	if line != "" {
		out += fmt.Sprintf("%3d| %s\n", n, line)
	}
	return out
}

func TestC20(t *testing.T) { runProp(t, "C20") }
