package props

import (
	"fmt"
	"sort"
	"strings"
	"sync"
	"sync/atomic"
	"testing"
	"time"

	"github.com/bilibili/gengine/engine"
	"pgregory.net/rapid"

	"verif/gx"
	"verif/obs"
)

// C07 - hot updates are atomic per execution and visible to every later execution.
type C07Update struct {
	Kind   string    `json:"kind"` // full | incr | remove
	Rules  []C08Rule `json:"rules,omitempty"`
	Remove []string  `json:"remove,omitempty"`
}

type C07Exec struct {
	Call gx.Call `json:"call"`
}

// C07LongPub: a saturated pool, an update that returns, requests that start after it and wait
// for an instance, and a long publication (a removal with a name list of Names entries, none
// of them installed) that is in progress when the instances are handed back.
type C07LongPub struct {
	Fill    int `json:"fill"`     // filler rules per version
	Names   int `json:"names"`    // entries of the removal's name list
	Waiters int `json:"waiters"`  // requests started after the update returned
	D1Ms    int `json:"d1_ms"`    // pause between starting the waiters and starting the removal
	D2Ms    int `json:"d2_ms"`    // pause between starting the removal and letting the parked requests go
	Incr    bool `json:"incr"`    // the update is incremental (all rules re-submitted) instead of full
}

type C07Case struct {
	Mode    string      `json:"mode"` // inside | concurrent | updaters (two goroutines issue commuting updates concurrently) | longpub
	LongPub *C07LongPub `json:"longpub,omitempty"`
	BigAdd  int         `json:"big_add,omitempty"`   // updaters: number of rules added by the one big incremental update
	Small   int         `json:"small,omitempty"`     // updaters: number of small incremental updates racing with it
	Removes []string    `json:"removes,omitempty"`   // updaters: v0 rules removed (one call each) by the second goroutine
	PoolMin int64       `json:"pool_min"`
	PoolMax int64       `json:"pool_max"`
	EM      int         `json:"em"`
	V0      []C08Rule   `json:"v0"`
	Updates []C07Update `json:"updates"`
	// inside mode
	Call    gx.Call `json:"call,omitempty"`
	Trigger string  `json:"trigger,omitempty"`
	// concurrent mode
	Clients [][]C07Exec `json:"clients,omitempty"`
	Yields  int         `json:"yields,omitempty"`
}

type c07Set map[string]c08Entry

func c07Tag(version int, name string) int64 {
	var i int64
	fmt.Sscanf(name, "n%d", &i)
	return int64(version)*1000 + i
}

func c07Text(rules []C08Rule, version int) string {
	var b strings.Builder
	for _, r := range rules {
		fmt.Fprintf(&b, "rule %q %q salience %d\nbegin\n  S(@name)\n  upd(@name)\n  gate(@name)\n  E(@name)\n  return %d\nend\n", r.Name, r.Desc, r.Sal, c07Tag(version, r.Name))
	}
	return b.String()
}

// apply computes the rule set after an update (model).
func (u C07Update) apply(s c07Set, version int) c07Set {
	out := c07Set{}
	switch u.Kind {
	case "full":
		for _, r := range u.Rules {
			out[r.Name] = c08Entry{r.Sal, r.Desc, c07Tag(version, r.Name)}
		}
	case "incr":
		for k, v := range s {
			out[k] = v
		}
		for _, r := range u.Rules {
			out[r.Name] = c08Entry{r.Sal, r.Desc, c07Tag(version, r.Name)}
		}
	case "remove":
		for k, v := range s {
			out[k] = v
		}
		for _, n := range u.Remove {
			delete(out, n)
		}
	}
	return out
}

func (u C07Update) perform(p *engine.GenginePool, version int) error {
	switch u.Kind {
	case "full":
		return p.UpdatePooledRules(c07Text(u.Rules, version))
	case "incr":
		return p.UpdatePooledRulesIncremental(c07Text(u.Rules, version))
	}
	return p.RemoveRules(u.Remove)
}

// expectedMap is the result map an execution of call must produce when it runs entirely
// on rule set s (no rule fails, every rule returns its tag); failNoRun reports the
// fail-without-running cases.
func expectedMap(call gx.Call, s c07Set, em int) (want map[string]int64, failNoRun bool) {
	m, _ := gx.Lookup(call.Method)
	want = map[string]int64{}
	var sched []string
	if m.Selected {
		for _, n := range call.Names {
			if _, ok := s[n]; ok {
				sched = append(sched, n)
			} else if m.NM {
				return want, true
			}
		}
	} else {
		for n := range s {
			sched = append(sched, n)
		}
	}
	if m.Shape == gx.ShDAG {
		for _, l := range call.DAG {
			for _, n := range l {
				if e, ok := s[n]; ok {
					want[n] = e.tag
				}
			}
		}
		return want, false
	}
	if m.NM {
		if call.N <= 0 || call.M <= 0 {
			return want, true
		}
		if m.Selected {
			if len(call.Names) != call.N+call.M {
				return want, true
			}
		} else {
			if call.N+call.M > len(sched) {
				return want, true
			}
			sort.Slice(sched, func(i, j int) bool { return s[sched[i]].sal > s[sched[j]].sal })
			sched = sched[:call.N+call.M]
		}
	}
	if len(sched) == 0 {
		return want, true
	}
	for _, n := range sched {
		want[n] = s[n].tag
	}
	return want, false
}

func consistentWith(call gx.Call, s c07Set, em int, res gx.Result) bool {
	want, fwr := expectedMap(call, s, em)
	if fwr {
		return res.Err != nil && len(res.Map) == 0
	}
	if res.Err != nil || len(res.Map) != len(want) {
		return false
	}
	for n, t := range want {
		if fmt.Sprint(res.Map[n]) != fmt.Sprint(t) {
			return false
		}
	}
	return true
}

func describeSet(s c07Set) string {
	var out []string
	for n, e := range s {
		out = append(out, fmt.Sprintf("%s(sal %d)->%d", n, e.sal, e.tag))
	}
	sort.Strings(out)
	return strings.Join(out, " ")
}

// genDistinctRules draws rules with pairwise distinct saliences (so that N-M windows and
// stage membership are determined).
func genDistinctRules(t *rapid.T, pfx string, minN, maxN int, avoid map[int64]bool) []C08Rule {
	n := uni(t, pfx+"n", minN, maxN)
	perm := rapid.Permutation(c08Universe).Draw(t, pfx+"names")
	sals := rapid.Permutation([]int64{-3, -2, -1, 0, 1, 2, 3, 4, 5, 6, 7, 8, 9, 10, 11, 12}).Draw(t, pfx+"sals")
	var out []C08Rule
	si := 0
	for i := 0; i < n; i++ {
		for avoid != nil && avoid[sals[si]] {
			si++
		}
		out = append(out, C08Rule{Name: perm[i], Sal: sals[si], Desc: "d"})
		si++
	}
	return out
}

func genC07Update(t *rapid.T, pfx string, cur c07Set) C07Update {
	used := map[int64]bool{}
	for _, e := range cur {
		used[e.sal] = true
	}
	switch k := uni(t, pfx+"kind", 0, 9); {
	case k <= 3:
		return C07Update{Kind: "full", Rules: genDistinctRules(t, pfx, 2, 6, nil)}
	case k <= 7:
		// incremental: new rules get fresh saliences, replaced rules keep or change theirs
		rs := genDistinctRules(t, pfx, 1, 4, used)
		for i := range rs {
			if e, ok := cur[rs[i].Name]; ok && pct(t, fmt.Sprintf("%skeep%d", pfx, i), 50) {
				rs[i].Sal = e.sal
			}
		}
		return C07Update{Kind: "incr", Rules: rs}
	}
	var names []string
	for n := range cur {
		names = append(names, n)
	}
	sort.Strings(names)
	if len(names) <= 1 {
		return C07Update{Kind: "incr", Rules: genDistinctRules(t, pfx, 1, 3, used)}
	}
	perm := rapid.Permutation(names).Draw(t, pfx+"rm")
	return C07Update{Kind: "remove", Remove: perm[:uni(t, pfx+"nrm", 1, len(perm))]}
}

func setOf(rules []C08Rule, version int) c07Set {
	s := c07Set{}
	for _, r := range rules {
		s[r.Name] = c08Entry{r.Sal, r.Desc, c07Tag(version, r.Name)}
	}
	return s
}

func genC07Call(t *rapid.T, pfx string, method string, s c07Set) gx.Call {
	var names []string
	for n := range s {
		names = append(names, n)
	}
	sort.Slice(names, func(i, j int) bool { return s[names[i]].sal > s[names[j]].sal })
	m, _ := gx.Lookup(method)
	c := gx.Call{Method: method, B: true}
	k := len(names)
	if m.Selected {
		perm := rapid.Permutation(names).Draw(t, pfx+"perm")
		cnt := uni(t, pfx+"cnt", min(2, len(perm)), len(perm))
		c.Names = perm[:cnt]
		k = cnt
	}
	if m.NM {
		if k >= 2 {
			total := k
			if !m.Selected {
				total = uni(t, pfx+"total", 2, k)
			}
			c.N = uni(t, pfx+"n", 1, total-1)
			c.M = total - c.N
		} else {
			c.N, c.M = 1, 1
		}
	}
	if m.Shape == gx.ShDAG {
		perm := rapid.Permutation(names).Draw(t, pfx+"dperm")
		nl := uni(t, pfx+"layers", 1, min(3, len(perm)))
		c.DAG = make([][]string, nl)
		for i, n := range perm {
			l := i % nl
			c.DAG[l] = append(c.DAG[l], n)
		}
	}
	return c
}

func init() {
	register(&Prop{
		ID:   "C07",
		Rule: "version-tagged rule sets with pairwise distinct saliences on pools of size (1,2),(1,3),(2,3),(2,4); mode 'inside' (deterministic): one execution through any of the 24 pool methods (selected lists, N-M splits, DAG layerings) during which an injected upd() called from a generated rule performs a generated update (full / incremental with kept or changed saliences and new names / removal) on the same pool, followed by a probe-all that parks one request on every instance; mode 'concurrent': 2-3 client goroutines issue 3-6 executions each while an updater applies 2-4 updates, every call stamped with a global sequence number; oracle: each execution's result map equals the expected map of exactly one version k with lo <= k <= hi (lo = last update that returned before the execution started, hi = last update that started before it returned) - all rules of that version, none of another - every rule ran at most once, no crash or hang, and after the history every instance runs the last version. 1% of the cases are long publications: a saturated pool (max requests parked), an update to version 1 (51-301 rules) that returns, 1-3 requests started afterwards that wait for an instance, a removal of 1000-400000 absent names started 0-40 ms later and the parked requests let go 0-120 ms after that; every late request must run version 1 completely, every request one version only. Non-trivial: an update lands inside an execution with >= 2 stages/layers or between executions on different instances; distinct by case hash",
		New:  func() interface{} { return &C07Case{} },
		Gen: func(t *rapid.T) interface{} {
			c := &C07Case{Mode: "inside"}
			if pct(t, "longpub", 1) {
				sizes := [][2]int64{{1, 2}, {1, 3}, {2, 3}}
				s := sizes[uni(t, "longpub_size", 0, 2)]
				return &C07Case{Mode: "longpub", PoolMin: s[0], PoolMax: s[1], EM: 1, LongPub: &C07LongPub{Fill: uni(t, "longpub_fill", 50, 300),
					Names: uni(t, "longpub_names", 1000, 400000), Waiters: uni(t, "longpub_waiters", 1, 3), D1Ms: uni(t, "longpub_d1", 0, 40), D2Ms: uni(t, "longpub_d2", 0, 120), Incr: pct(t, "longpub_incr", 30)}}
			}
			if pct(t, "concurrent", 25) {
				c.Mode = "concurrent"
			} else if pct(t, "updaters", 10) {
				c.Mode = "updaters"
			}
			sizes := [][2]int64{{1, 2}, {1, 3}, {2, 3}, {2, 4}}
			s := sizes[uni(t, "pool_size", 0, len(sizes)-1)]
			c.PoolMin, c.PoolMax = s[0], s[1]
			c.EM = uni(t, "em", 1, 4)
			c.V0 = genDistinctRules(t, "v0_", 3, 6, nil)
			cur := setOf(c.V0, 0)
			ms := gx.MethodNames(true)
			if c.Mode == "updaters" {
				c.BigAdd = uni(t, "big_add", 30, 120)
				c.Small = uni(t, "small", 3, 12)
				names := ruleNamesOf(c.V0)
				nrm := uni(t, "nremoves", 0, len(names)-1)
				c.Removes = rapid.Permutation(names).Draw(t, "removes")[:nrm]
				return c
			}
			if c.Mode == "inside" {
				u := genC07Update(t, "u1_", cur)
				c.Updates = []C07Update{u}
				c.Call = genC07Call(t, "call_", ms[uni(t, "method", 0, len(ms)-1)], cur)
				names := ruleNamesOf(c.V0)
				c.Trigger = names[uni(t, "trigger", 0, len(names)-1)]
				return c
			}
			nu := uni(t, "nupdates", 2, 4)
			sets := []c07Set{cur}
			for i := 0; i < nu; i++ {
				u := genC07Update(t, fmt.Sprintf("u%d_", i+1), cur)
				c.Updates = append(c.Updates, u)
				cur = u.apply(cur, i+1)
				sets = append(sets, cur)
			}
			nc := uni(t, "nclients", 2, 3)
			for k := 0; k < nc; k++ {
				var execs []C07Exec
				for e := 0; e < uni(t, fmt.Sprintf("nexec%d", k), 3, 6); e++ {
					base := sets[uni(t, fmt.Sprintf("base%d_%d", k, e), 0, len(sets)-1)]
					execs = append(execs, C07Exec{Call: genC07Call(t, fmt.Sprintf("c%d_%d_", k, e), ms[uni(t, fmt.Sprintf("m%d_%d", k, e), 0, len(ms)-1)], base)})
				}
				c.Clients = append(c.Clients, execs)
			}
			c.Yields = uni(t, "yields", 0, 4)
			return c
		},
		Check: checkC07,
	})
}

func ruleNamesOf(rs []C08Rule) []string {
	var out []string
	for _, r := range rs {
		out = append(out, r.Name)
	}
	return out
}

func c07LongPubText(fill, version int) string {
	var b strings.Builder
	fmt.Fprintf(&b, "rule \"m\" \"d\" salience 100000\nbegin\n  hold(who.Id)\n  return %d\nend\n", version)
	for i := 0; i < fill; i++ {
		fmt.Fprintf(&b, "rule \"f%d\" \"d\" salience %d\nbegin\n  return %d\nend\n", i, fill-i, version)
	}
	return b.String()
}

func checkC07LongPub(c *C07Case, x *Ctx) {
	lp := c.LongPub
	max := int(c.PoolMax)
	total := max + lp.Waiters
	slots := make([]*c17Slot, total+1)
	for i := range slots {
		slots[i] = &c17Slot{done: make(chan gx.Result, 1)}
	}
	apis := map[string]interface{}{"hold": func(id int64) {
		s := slots[id]
		atomic.StoreInt32(&s.entered, 1)
		for atomic.LoadInt32(&s.release) == 0 {
			time.Sleep(100 * time.Microsecond)
		}
	}}
	p, err := engine.NewGenginePool(c.PoolMin, c.PoolMax, c.EM, c07LongPubText(lp.Fill, 0), apis)
	if err != nil {
		x.Violation("setup", "NewGenginePool: %v", err)
		return
	}
	defer func() {
		for _, s := range slots {
			atomic.StoreInt32(&s.release, 1)
		}
	}()
	x.Class("long-publication")
	x.NonTrivial()
	exec := func(id int) {
		slots[id].done <- gx.OnPool(p, gx.Call{Method: "Execute", B: true}, map[string]interface{}{"who": &Payload{Id: int64(id)}}, &engine.Stag{})
	}
	for id := 0; id < max; id++ {
		go exec(id)
	}
	for id := 0; id < max; id++ {
		if !c17Await(&slots[id].entered, x) {
			x.Violation("longpub-setup", "a fresh pool (%d,%d) did not run %d requests simultaneously", c.PoolMin, c.PoolMax, max)
			return
		}
	}
	v1 := c07LongPubText(lp.Fill, 1)
	var uerr error
	var upan string
	if lp.Incr {
		uerr, upan = guard(func() error { return p.UpdatePooledRulesIncremental(v1) })
	} else {
		uerr, upan = guard(func() error { return p.UpdatePooledRules(v1) })
	}
	if uerr != nil || upan != "" {
		x.Violation("update-failed", "the update to version 1 (%d rules) failed: err=%v panic=%q", lp.Fill+1, uerr, truncate(upan, 200))
		return
	}
	// version 1 is published: every request that starts from here on runs version 1
	for id := max; id < total; id++ {
		atomic.StoreInt32(&slots[id].release, 1) // the late requests do not park
		go exec(id)
	}
	time.Sleep(time.Duration(lp.D1Ms) * time.Millisecond)
	names := make([]string, lp.Names)
	for i := range names {
		names[i] = fmt.Sprintf("absent%d", i)
	}
	rmDone := make(chan string, 1)
	var rmStart, rmEnd time.Time
	go func() {
		rmStart = time.Now()
		_, pan := guard(func() error { return p.RemoveRules(names) })
		rmEnd = time.Now()
		rmDone <- pan
	}()
	time.Sleep(time.Duration(lp.D2Ms) * time.Millisecond)
	released := time.Now()
	for id := 0; id < max; id++ {
		atomic.StoreInt32(&slots[id].release, 1)
	}
	for id := 0; id < total; id++ {
		var res gx.Result
		select {
		case res = <-slots[id].done:
		case <-time.After(hangBound()):
			x.Violation("longpub-stuck", "request %d did not return within %v (pool (%d,%d), removal of %d absent names from %d rules in progress)", id, hangBound(), c.PoolMin, c.PoolMax, lp.Names, lp.Fill+1)
			return
		}
		if res.Panic != "" || res.Err != nil {
			x.Violation("longpub-result", "request %d returned err=%v panic=%q", id, res.Err, truncate(res.Panic, 200))
			return
		}
		vers := map[string]bool{}
		for _, v := range res.Map {
			vers[fmt.Sprint(v)] = true
		}
		if len(res.Map) != lp.Fill+1 || len(vers) != 1 {
			x.Violation("mixed-versions", "request %d returned %d results with the version markers %v, want %d results of one version", id, len(res.Map), vers, lp.Fill+1)
			return
		}
		if id >= max && !vers["1"] {
			x.Violation("stale-version", "request %d started after the update to version 1 had returned (it waited for an instance of the saturated pool (%d,%d) while a removal of %d absent names was being published) and ran version %v", id, c.PoolMin, c.PoolMax, lp.Names, vers)
			return
		}
	}
	select {
	case pan := <-rmDone:
		if pan != "" {
			x.Violation("panic:remove", "RemoveRules panicked: %s", truncate(pan, 200))
			return
		}
	case <-time.After(hangBound()):
		x.Violation("longpub-stuck", "RemoveRules(%d absent names) did not return within %v", lp.Names, hangBound())
		return
	}
	if released.After(rmStart) && released.Before(rmEnd) {
		x.Class("long-publication:instances-handed-back-while-the-removal-was-running")
	}
	// afterwards: version 1, complete
	atomic.StoreInt32(&slots[total].release, 1)
	exec(total)
	res := <-slots[total].done
	if res.Panic != "" || res.Err != nil || len(res.Map) != lp.Fill+1 || fmt.Sprint(res.Map["m"]) != "1" {
		x.Violation("longpub-final", "after the removal of absent names the pool returned %d results (m=%v) err=%v panic=%q, want the %d rules of version 1", len(res.Map), res.Map["m"], res.Err, truncate(res.Panic, 200), lp.Fill+1)
	}
}

func checkC07(ci interface{}, x *Ctx) {
	c := ci.(*C07Case)
	if c.Mode == "longpub" {
		checkC07LongPub(c, x)
		return
	}
	env := newSchedEnv()
	apis := env.apis()
	var pool *engine.GenginePool
	var fired int32
	var updErr error
	var updPanic string
	apis["upd"] = func(n string) {
		if c.Mode != "inside" || n != c.Trigger || !atomic.CompareAndSwapInt32(&fired, 0, 1) {
			return
		}
		env.log.Add("UPD-START", n, 0)
		updErr, updPanic = guard(func() error { return c.Updates[0].perform(pool, 1) })
		env.log.Add("UPD-END", n, 0)
	}
	p, err := engine.NewGenginePool(c.PoolMin, c.PoolMax, c.EM, c07Text(c.V0, 0), apis)
	if err != nil {
		x.Violation("setup", "NewGenginePool: %v", err)
		return
	}
	pool = p
	tg := &schedTarget{pool: p, env: env}
	sets := []c07Set{setOf(c.V0, 0)}
	for i, u := range c.Updates {
		sets = append(sets, u.apply(sets[i], i+1))
	}
	x.Class("mode:" + c.Mode)
	for _, u := range c.Updates {
		x.Class("update:" + u.Kind)
	}
	final := sets[len(sets)-1]
	if c.Mode == "updaters" {
		// two goroutines issue commuting updates (disjoint names): whatever the serialisation,
		// every update that returned successfully must be part of the final rule set
		mk := func(prefix string, i int, sal int64) string {
			return fmt.Sprintf("rule \"%s%d\" \"d\" salience %d\nbegin\n  S(@name)\n  upd(@name)\n  gate(@name)\n  E(@name)\n  return %d\nend\n", prefix, i, sal, 7000+i)
		}
		var big strings.Builder
		for i := 0; i < c.BigAdd; i++ {
			big.WriteString(mk("m", i, int64(100+i)))
		}
		var wg sync.WaitGroup
		var e1 error
		e2s := make([]error, c.Small+len(c.Removes))
		wg.Add(2)
		start := make(chan struct{})
		go func() {
			defer wg.Done()
			<-start
			e1 = p.UpdatePooledRulesIncremental(big.String())
		}()
		go func() {
			defer wg.Done()
			<-start
			for i := 0; i < c.Small; i++ {
				e2s[i] = p.UpdatePooledRulesIncremental(mk("z", i, int64(-100-i)))
				if i < len(c.Removes) {
					e2s[c.Small+i] = p.RemoveRules([]string{c.Removes[i]})
				}
			}
			for i := c.Small; i < len(c.Removes); i++ {
				e2s[c.Small+i] = p.RemoveRules([]string{c.Removes[i]})
			}
		}()
		close(start)
		done := make(chan struct{})
		go func() { wg.Wait(); close(done) }()
		select {
		case <-done:
		case <-time.After(hangBound()):
			hangExit(x, currentCaseJSON, "concurrent management calls did not return")
		}
		if e1 != nil {
			x.Violation("update-failed", "big incremental update failed: %v", e1)
			return
		}
		for _, e := range e2s {
			if e != nil {
				x.Violation("update-failed", "small update / removal failed: %v", e)
				return
			}
		}
		want := map[string]bool{}
		for _, r := range c.V0 {
			want[r.Name] = true
		}
		for _, n := range c.Removes {
			delete(want, n)
		}
		for i := 0; i < c.BigAdd; i++ {
			want[fmt.Sprintf("m%d", i)] = true
		}
		for i := 0; i < c.Small; i++ {
			want[fmt.Sprintf("z%d", i)] = true
		}
		x.Class("two-updaters")
		x.NonTrivial()
		if n := p.GetRulesNumber(); n != len(want) {
			x.Violation("lost-update:count", "after two goroutines' updates all returned successfully the pool reports %d rules, the updates denote %d (big incremental of %d rules, %d small incrementals, %d removals)", n, len(want), c.BigAdd, c.Small, len(c.Removes))
			return
		}
		var names []string
		for n := range want {
			names = append(names, n)
		}
		ex := p.IsExist(names)
		for i, n := range names {
			if !ex[i] {
				x.Violation("lost-update:exist", "rule %q was added by an update that returned successfully but does not exist afterwards", n)
				return
			}
		}
		for _, n := range c.Removes {
			if p.IsExist([]string{n})[0] {
				x.Violation("lost-update:removal", "rule %q was removed by a call that returned successfully but still exists", n)
				return
			}
		}
		err, res := p.Execute(map[string]interface{}{"stag": env.tag}, true)
		if err != nil || len(res) != len(want) {
			x.Violation("lost-update:execute", "execution after the updates returned %d results (err=%v), the updates denote %d rules", len(res), err, len(want))
		}
		return
	}
	if c.Mode == "inside" {
		m, _ := gx.Lookup(c.Call.Method)
		x.Class("method:" + c.Call.Method)
		var res gx.Result
		withBound(x, "execution with an update from inside rule "+c.Trigger, func() {
			res = gx.OnPool(p, c.Call, map[string]interface{}{"stag": env.tag}, env.tag)
		})
		trace := env.log.Snapshot()
		hist := fmt.Sprintf("v0: %s\nupdate (%s) from inside rule %q -> v1: %s\ncall %s\nresult %v err=%v\ntrace %v", describeSet(sets[0]), c.Updates[0].Kind, c.Trigger, describeSet(sets[1]), c.Call, sortedMap(res.Map), res.Err, trace)
		if res.Panic != "" || updPanic != "" {
			x.Violation("panic/"+m.Shape+"/"+c.Updates[0].Kind, "panic during an execution overlapped by an update: %s %s\n%s", truncate(res.Panic, 200), truncate(updPanic, 200), hist)
			return
		}
		triggered := !atomic.CompareAndSwapInt32(&fired, 0, 2) // from now on upd() is inert
		if triggered && updErr != nil {
			x.Violation("update-rejected", "the update from inside the rule failed: %v\n%s", updErr, hist)
			return
		}
		starts := map[string]int{}
		for _, e := range trace {
			if e.Kind == "S" {
				starts[e.Name]++
				if starts[e.Name] > 1 {
					x.Violation("ran-twice/"+m.Shape, "rule %q ran twice in one execution\n%s", e.Name, hist)
					return
				}
			}
		}
		if triggered {
			x.Class("update-landed-inside-execution")
			multi := m.NM || m.Shape == gx.ShMix || m.Shape == gx.ShInv || (m.Shape == gx.ShDAG && len(c.Call.DAG) >= 2) || m.Shape == gx.ShByEM
			if multi {
				x.Class("update-inside-multi-stage-execution")
				x.NonTrivial()
			}
			// the trigger rule itself ran as v0, so the execution is v0 (lo = 0) or - if the
			// engine defers everything - v1; never a mixture
			if !consistentWith(c.Call, sets[0], c.EM, res) && !consistentWith(c.Call, sets[1], c.EM, res) {
				w0, _ := expectedMap(c.Call, sets[0], c.EM)
				w1, _ := expectedMap(c.Call, sets[1], c.EM)
				x.Violation("torn/"+m.Shape+"/"+c.Updates[0].Kind, "the execution ran neither version 0 (expected %v) nor version 1 (expected %v) entirely\n%s", w0, w1, hist)
				return
			}
		} else {
			if !consistentWith(c.Call, sets[0], c.EM, res) {
				w0, _ := expectedMap(c.Call, sets[0], c.EM)
				x.Violation("wrong-result/"+m.Shape, "no update happened but the result differs from version 0 (expected %v)\n%s", w0, hist)
				return
			}
			final = sets[0]
		}
	} else {
		// concurrent mode
		var seq int64
		next := func() int64 { return atomic.AddInt64(&seq, 1) }
		type execRec struct {
			call       gx.Call
			start, end int64
			res        gx.Result
		}
		type updRec struct{ start, end int64 }
		upds := make([]updRec, len(c.Updates))
		var recs []*execRec
		var mu sync.Mutex
		for _, r := range c.V0 {
			env.gates.Set(r.Name, obs.Yield, c.Yields)
		}
		for _, u := range c.Updates {
			for _, r := range u.Rules {
				env.gates.Set(r.Name, obs.Yield, c.Yields)
			}
		}
		var wg sync.WaitGroup
		var updFail atomic.Value
		wg.Add(1)
		go func() {
			defer wg.Done()
			for i, u := range c.Updates {
				upds[i].start = next()
				e, pan := guard(func() error { return u.perform(p, i+1) })
				upds[i].end = next()
				if e != nil || pan != "" {
					updFail.Store(fmt.Sprintf("update %d (%s): err=%v panic=%s", i+1, u.Kind, e, pan))
					return
				}
				for y := 0; y < 3; y++ {
					time.Sleep(50 * time.Microsecond)
				}
			}
		}()
		for _, execs := range c.Clients {
			wg.Add(1)
			go func(execs []C07Exec) {
				defer wg.Done()
				for _, e := range execs {
					r := &execRec{call: e.Call}
					r.start = next()
					r.res = gx.OnPool(p, e.Call, map[string]interface{}{"stag": &engine.Stag{}}, &engine.Stag{})
					r.end = next()
					mu.Lock()
					recs = append(recs, r)
					mu.Unlock()
				}
			}(execs)
		}
		done := make(chan struct{})
		go func() { wg.Wait(); close(done) }()
		select {
		case <-done:
		case <-time.After(hangBound()):
			hangExit(x, currentCaseJSON, "executions concurrent with updates did not finish (e.g. WaitGroup misuse when the rule set changes size)")
		}
		if f := updFail.Load(); f != nil {
			x.Violation("update-failed", "%v", f)
			return
		}
		overlaps := 0
		for _, r := range recs {
			if r.res.Panic != "" {
				x.Violation("panic/concurrent", "execution %s panicked while updates were running: %s", r.call, truncate(r.res.Panic, 300))
				return
			}
			lo, hi := 0, 0
			for j, u := range upds {
				if u.end != 0 && u.end < r.start {
					lo = j + 1
				}
				if u.start != 0 && u.start < r.end {
					hi = j + 1
				}
			}
			if hi > lo {
				overlaps++
			}
			ok := false
			for k := lo; k <= hi; k++ {
				if consistentWith(r.call, sets[k], c.EM, r.res) {
					ok = true
				}
			}
			if !ok {
				m, _ := gx.Lookup(r.call.Method)
				var wants []string
				for k := lo; k <= hi; k++ {
					w, fwr := expectedMap(r.call, sets[k], c.EM)
					wants = append(wants, fmt.Sprintf("v%d: %v fail-without-running=%v", k, w, fwr))
				}
				x.Violation("history/"+m.Shape, "execution %s (seq %d..%d) returned %v err=%v, which is not the result of any single version in its window [%d,%d]: %v", r.call, r.start, r.end, sortedMap(r.res.Map), r.res.Err != nil, lo, hi, wants)
				return
			}
		}
		if overlaps > 0 {
			x.Class("execution-overlapped-an-update")
			x.NonTrivial()
		}
	}
	// visibility: every instance runs the last version
	if len(final) == 0 {
		return
	}
	env.log.Reset()
	var names []string
	for n := range final {
		names = append(names, n)
	}
	sort.Slice(names, func(i, j int) bool { return final[names[i]].sal > final[names[j]].sal })
	results := probeAllMethod(x, tg, int(c.PoolMax), names[0], gx.Call{Method: "Execute", B: true}, "after the updates")
	for i, r := range results {
		if !consistentWith(gx.Call{Method: "Execute", B: true}, final, c.EM, r) {
			want, _ := expectedMap(gx.Call{Method: "Execute", B: true}, final, c.EM)
			x.Violation("stale-instance", "after all updates returned, one of %d simultaneous requests (request %d, each on its own instance) returned %v err=%v, the last version is %v", c.PoolMax, i, sortedMap(r.Map), r.Err, want)
			return
		}
	}
}

func TestC07(t *testing.T) { runProp(t, "C07") }
