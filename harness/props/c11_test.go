package props

import (
	"fmt"
	"sort"
	"strings"
	"testing"
	"time"

	"github.com/bilibili/gengine/builder"
	"github.com/bilibili/gengine/context"
	"github.com/bilibili/gengine/engine"
	"pgregory.net/rapid"

	"verif/gx"
	"verif/models"
)

// C11 - the result map is exactly the set of rules that returned in this call.
type C11Rule struct {
	Name string `json:"name"`
	Sal  int64  `json:"sal"`
	Kind string `json:"kind"` // val | bare | nested | none | failbefore | failinret | flag | valtag (sets the stop tag, then returns)
	Lit  string `json:"lit,omitempty"`
}

type C11Call struct {
	Call gx.Call `json:"call"`
	Flag bool    `json:"flag"`
	// Mgmt is a management step performed before the call: "" | "remove-all" (RemoveRules
	// of every rule: the set is empty but not "cleared") | "restore" (incremental re-add)
	Mgmt string `json:"mgmt,omitempty"`
}

type C11Case struct {
	Rules   []C11Rule `json:"rules"`
	Pool    bool      `json:"pool,omitempty"`
	PoolMin int64     `json:"pool_min,omitempty"`
	PoolMax int64     `json:"pool_max,omitempty"`
	EM      int       `json:"em,omitempty"`
	Calls   []C11Call `json:"calls"`
	// Pure: the rules call no injected function at all (kinds pbare / pval / pnone / pif /
	// pempty); every call runs the whole set, so the expected map is known without a trace
	Pure bool `json:"pure,omitempty"`
}

type c11Flags struct{ On bool }

func c11PureText(r C11Rule) string {
	body := ""
	switch r.Kind {
	case "pbare":
		body = "  return\n"
	case "pval":
		body = "  return " + r.Lit + "\n"
	case "pnone":
		body = "  zz = 1\n"
	case "pif":
		body = "  if 1 == 2 {\n    return 1\n  }\n"
	case "pifret":
		body = "  if 1 == 1 {\n    return\n  }\n"
	}
	return fmt.Sprintf("rule %q %q salience %d\nbegin\n%send\n", r.Name, "d", r.Sal, body)
}

// checkC11Pure: rule sets whose bodies call nothing; 2-4 calls that run the whole set on one
// engine or pool; after each call the map is exactly {pbare: nil, pifret: nil, pval: literal}.
func checkC11Pure(c *C11Case, x *Ctx) {
	var text strings.Builder
	want := map[string]string{}
	var names []string
	for _, r := range c.Rules {
		text.WriteString(c11PureText(r))
		names = append(names, r.Name)
		switch r.Kind {
		case "pbare", "pifret":
			want[r.Name] = "<nil>"
		case "pval":
			want[r.Name] = litValue(r.Lit)
		}
	}
	x.Class("pure-rules-without-any-call")
	x.NonTrivial()
	var run func(call gx.Call) gx.Result
	if c.Pool {
		p, err := engine.NewGenginePool(c.PoolMin, c.PoolMax, c.EM, text.String(), map[string]interface{}{})
		if err != nil {
			x.Violation("setup", "NewGenginePool: %v\n%s", err, text.String())
			return
		}
		run = func(call gx.Call) gx.Result { return gx.OnPool(p, call, map[string]interface{}{}, &engine.Stag{}) }
	} else {
		rb, err := buildDSL(text.String(), map[string]interface{}{})
		if err != nil {
			x.Violation("compile", "generated text was rejected: %v\n%s", err, text.String())
			return
		}
		g := engine.NewGengine()
		run = func(call gx.Call) gx.Result { return gx.OnEngine(g, rb, call, &engine.Stag{}) }
	}
	for ci, cc := range c.Calls {
		res := run(cc.Call)
		if res.Panic != "" || res.Err != nil {
			x.Violation("pure-call-failed", "call %d %s on a set of rules that call nothing: err=%v panic=%q\n%s", ci, cc.Call, res.Err, truncate(res.Panic, 200), text.String())
			return
		}
		got := map[string]string{}
		for k, v := range res.Map {
			got[k] = fmt.Sprint(v)
		}
		for k, v := range got {
			if w, ok := want[k]; !ok {
				x.Violation("extra-entry/pure", "call %d %s: result map has entry %q=%s, but that rule reaches no return\n%s", ci, cc.Call, k, v, text.String())
				return
			} else if w != v {
				x.Violation("wrong-value/pure", "call %d %s: result map entry %q=%s, want %s\n%s", ci, cc.Call, k, v, w, text.String())
				return
			}
		}
		for k, w := range want {
			if _, ok := got[k]; !ok {
				x.Violation("missing-entry/pure", "call %d %s: rule %q reaches its return (value %s) but has no entry in the result map %v\n%s", ci, cc.Call, k, w, sortedMap(res.Map), text.String())
				return
			}
		}
	}
}

func (r C11Rule) text() string {
	var b strings.Builder
	fmt.Fprintf(&b, "rule %q %q salience %d\nbegin\n  S(@name)\n", r.Name, "d", r.Sal)
	switch r.Kind {
	case "failbefore":
		b.WriteString("  FX(@name)\n  zz = 1 / 0\n  return " + r.Lit + "\n")
	case "failinret":
		b.WriteString("  FX(@name)\n  return 1 + \"a\"\n")
	case "failbreak":
		// a break outside every loop makes the rule fail; it has no entry
		b.WriteString("  FX(@name)\n  if tn == 1 {\n    break\n  }\n  return " + r.Lit + "\n")
	case "failunexp":
		// the statements succeed and the rule reaches its return, but the returned value (read
		// from an unexported field) cannot be handed out: the rule fails, so it has no entry
		b.WriteString("  FX(@name)\n  hv = O.hid\n  return hv\n")
	case "zerostruct":
		// the returned value is a struct held by value whose fields are all zero: it is a value, not nil
		b.WriteString("  E(@name)\n  return O.Pt\n")
	case "val":
		b.WriteString("  E(@name)\n  return " + r.Lit + "\n")
	case "valtag":
		b.WriteString("  stag.StopTag = true\n  E(@name)\n  return " + r.Lit + "\n")
	case "bare":
		b.WriteString("  E(@name)\n  return\n")
	case "nested":
		b.WriteString("  E(@name)\n  if 1 == 1 {\n    for i = 0; i < 2; i += 1 {\n      if i == 0 {\n        return " + r.Lit + "\n      }\n    }\n  }\n  return \"unreachable\"\n")
	case "nestedrange":
		b.WriteString("  E(@name)\n  forRange rk := sl {\n    if rk == 0 {\n      return " + r.Lit + "\n    }\n  }\n  return \"unreachable\"\n")
	case "none":
		b.WriteString("  E(@name)\n")
	case "flag":
		b.WriteString("  E(@name)\n  if flags.On {\n    return " + r.Lit + "\n  }\n")
	}
	b.WriteString("end\n")
	return b.String()
}

func (r C11Rule) fails() bool {
	return r.Kind == "failbefore" || r.Kind == "failinret" || r.Kind == "failunexp" || r.Kind == "failbreak"
}

// returns reports whether the rule reaches a return when it runs with the given flag.
func (r C11Rule) returns(flag bool) (bool, string) {
	switch r.Kind {
	case "val", "nested", "nestedrange", "valtag":
		return true, r.Lit
	case "zerostruct":
		return true, "{0 0}"
	case "bare":
		return true, "<nil>"
	case "flag":
		return flag, r.Lit
	}
	return false, ""
}

var c11Lits = []string{"7", "-3", "9223372036854775807", "2.5", "\"str\"", "\"\"", "true", "false", "0"}

func litValue(l string) string {
	switch {
	case strings.HasPrefix(l, "\""):
		return strings.Trim(l, "\"")
	}
	return l
}

func init() {
	register(&Prop{
		ID:   "C11",
		Rule: "rule sets of 2-8 rules (sometimes 20-40 for the concurrent models), each rule one of {returns a literal of any class, returns an all-zero struct value, bare return, returns from inside nested if/for and from inside a forRange body, no return, fails before its return, fails in its return expression, returns a value read from an unexported field (which fails when it is handed out), returns iff an injected flag is set}; sequences of 2-5 calls on the same engine or pool with changing methods (all 21/24 execute methods, selected lists, N-M splits, DAG layerings incl. empty layers and the empty DAG) and changing flag; 5% of the cases are sets of 2-6 rules whose bodies call nothing (only `return`, only `return <literal>`, only an assignment, only an if, an if around a bare return, an empty body), run as a whole 2-4 times through any method: the map is exactly the bare returns (nil) and the literals; oracle after every call: the result map equals exactly {rule -> value | the rule started in this call (by trace) and reaches a return under this call's flag}, nil for a bare return, nothing from earlier calls. Non-trivial: a sequence in which a rule that returned in one call must be absent in a later call, or a failing rule runs, or >= 8 rules publish results concurrently; distinct by case hash",
		New:  func() interface{} { return &C11Case{} },
		Gen: func(t *rapid.T) interface{} {
			c := &C11Case{}
			if pct(t, "pure", 5) {
				c.Pure = true
				pk := []string{"pbare", "pbare", "pval", "pnone", "pif", "pifret", "pempty"}
				n := uni(t, "pure_n", 2, 6)
				for i := 0; i < n; i++ {
					c.Rules = append(c.Rules, C11Rule{Name: fmt.Sprintf("r%d", i), Sal: int64(uni(t, fmt.Sprintf("psal%d", i), -2, 4)), Kind: pk[uni(t, fmt.Sprintf("pkind%d", i), 0, len(pk)-1)], Lit: c11Lits[uni(t, fmt.Sprintf("plit%d", i), 0, len(c11Lits)-1)]})
				}
				c.Pool = rapid.Bool().Draw(t, "pure_pool")
				if c.Pool {
					s := [][2]int64{{1, 2}, {1, 3}, {2, 3}}[uni(t, "pure_pool_size", 0, 2)]
					c.PoolMin, c.PoolMax = s[0], s[1]
					c.EM = uni(t, "pure_em", 1, 4)
				}
				ms := gx.MethodNames(c.Pool)
				var names []string
				for _, r := range c.Rules {
					names = append(names, r.Name)
				}
				for k := uni(t, "pure_ncalls", 2, 4); k > 0; k-- {
					c.Calls = append(c.Calls, C11Call{Call: fullCall(ms[uni(t, fmt.Sprintf("pure_m%d", k), 0, len(ms)-1)], names, uni(t, fmt.Sprintf("pure_salt%d", k), 0, 7))})
				}
				return c
			}
			n := uni(t, "nrules", 2, 8)
			big := pct(t, "many_rules", 8)
			if big {
				n = uni(t, "nrules_big", 20, 40)
			}
			kinds := []string{"val", "val", "bare", "nested", "none", "failbefore", "failinret", "failunexp", "failbreak", "flag", "flag", "valtag", "zerostruct", "nestedrange"}
			haveTagSetter := false
			for i := 0; i < n; i++ {
				k := kinds[uni(t, fmt.Sprintf("kind%d", i), 0, len(kinds)-1)]
				if big && (k == "failbefore" || k == "failinret" || k == "failunexp" || k == "failbreak" || k == "valtag") {
					k = "val"
				}
				if k == "valtag" {
					// at most one rule writes the (user-owned) stop tag: two setters running
					// concurrently would be a conflicting access on user data, not on gengine's state
					if haveTagSetter {
						k = "val"
					}
					haveTagSetter = true
				}
				c.Rules = append(c.Rules, C11Rule{Name: fmt.Sprintf("r%d", i), Sal: int64(uni(t, fmt.Sprintf("sal%d", i), -2, 4)), Kind: k, Lit: c11Lits[uni(t, fmt.Sprintf("lit%d", i), 0, len(c11Lits)-1)]})
			}
			c.Pool = rapid.Bool().Draw(t, "pool")
			if c.Pool {
				sizes := [][2]int64{{1, 2}, {1, 3}, {2, 3}}
				s := sizes[uni(t, "pool_size", 0, 2)]
				c.PoolMin, c.PoolMax = s[0], s[1]
				c.EM = uni(t, "em", 1, 4)
			}
			mrules := make([]models.Rule, len(c.Rules))
			for i, r := range c.Rules {
				mrules[i] = models.Rule{Name: r.Name, Sal: r.Sal}
			}
			ms := gx.MethodNames(c.Pool)
			nc := uni(t, "ncalls", 2, 5)
			for k := 0; k < nc; k++ {
				method := ms[uni(t, fmt.Sprintf("method%d", k), 0, len(ms)-1)]
				if big {
					method = []string{"ExecuteConcurrent", "ExecuteMixModel", "ExecuteInverseMixModel", "ExecuteDAGModel", "ExecuteNConcurrentMConcurrent"}[uni(t, fmt.Sprintf("bigmethod%d", k), 0, 4)]
				}
				call := c11GenCall(t, fmt.Sprintf("c%d_", k), method, mrules)
				mg := ""
				if k > 0 && !big && pct(t, fmt.Sprintf("mgmt%d", k), 22) {
					mg = []string{"remove-all", "remove-all", "restore"}[uni(t, fmt.Sprintf("mgmtkind%d", k), 0, 2)]
				}
				c.Calls = append(c.Calls, C11Call{Call: call, Flag: rapid.Bool().Draw(t, fmt.Sprintf("flag%d", k)), Mgmt: mg})
			}
			return c
		},
		Check: checkC11,
	})
}

func c11GenCall(t *rapid.T, pfx, method string, rules []models.Rule) gx.Call {
	m, _ := gx.Lookup(method)
	c := gx.Call{Method: method}
	if m.HasB {
		c.B = rapid.Bool().Draw(t, pfx+"b")
	}
	k := len(rules)
	if m.Selected {
		perm := rapid.Permutation(seqInts(len(rules))).Draw(t, pfx+"perm")
		cnt := uni(t, pfx+"cnt", 1, len(rules))
		for _, i := range perm[:cnt] {
			c.Names = append(c.Names, rules[i].Name)
		}
		k = cnt
	}
	if m.NM {
		if k >= 2 {
			total := k
			if !m.Selected {
				total = uni(t, pfx+"total", 2, k)
			}
			c.N = uni(t, pfx+"n", 1, total-1)
			c.M = total - c.N
		} else {
			c.N, c.M = 1, 1
		}
	}
	if m.Shape == gx.ShDAG {
		nl := uni(t, pfx+"layers", 0, 3)
		c.DAG = make([][]string, nl)
		for i := range c.DAG {
			w := uni(t, fmt.Sprintf("%sw%d", pfx, i), 0, min(len(rules), 5))
			perm := rapid.Permutation(seqInts(len(rules))).Draw(t, fmt.Sprintf("%sdperm%d", pfx, i))
			for _, j := range perm[:w] {
				c.DAG[i] = append(c.DAG[i], rules[j].Name)
			}
		}
	}
	return c
}

func checkC11(ci interface{}, x *Ctx) {
	c := ci.(*C11Case)
	if c.Pure {
		checkC11Pure(c, x)
		return
	}
	env := newSchedEnv()
	apis := env.apis()
	apis["FX"] = func(n string) { env.log.Add("F", n, 0) }
	flags := &c11Flags{}
	var text strings.Builder
	byName := map[string]C11Rule{}
	mrules := make([]models.Rule, len(c.Rules))
	for i, r := range c.Rules {
		text.WriteString(r.text())
		byName[r.Name] = r
		mrules[i] = models.Rule{Name: r.Name, Sal: r.Sal, Fails: r.fails(), SetsTag: r.Kind == "valtag"}
	}
	tg := &schedTarget{env: env}
	if c.Pool {
		p, err := engine.NewGenginePool(c.PoolMin, c.PoolMax, c.EM, text.String(), apis)
		if err != nil {
			x.Violation("compile", "generated text rejected: %v\n%s", err, text.String())
			return
		}
		tg.pool = p
	} else {
		dc := context.NewDataContext()
		for k, v := range apis {
			dc.Add(k, v)
		}
		dc.Add("stag", env.tag)
		dc.Add("flags", flags)
		rb := builder.NewRuleBuilder(dc)
		if err := rb.BuildRuleFromString(text.String()); err != nil {
			x.Violation("compile", "generated text rejected: %v\n%s", err, text.String())
			return
		}
		tg.rb, tg.g = rb, engine.NewGengine()
	}
	if len(c.Rules) >= 20 {
		x.Class("many-rules")
	}
	returnedBefore := map[string]bool{}
	allRules := mrules
	for ci, cc := range c.Calls {
		switch cc.Mgmt {
		case "remove-all":
			var e error
			if tg.pool != nil {
				e = tg.pool.RemoveRules(ruleNames(allRules))
			} else {
				e = tg.rb.RemoveRules(ruleNames(allRules))
			}
			if e != nil {
				x.Violation("mgmt", "RemoveRules failed: %v", e)
				return
			}
			mrules = nil
			x.Class("call-on-emptied-rule-set")
		case "restore":
			var e error
			if tg.pool != nil {
				e = tg.pool.UpdatePooledRulesIncremental(text.String())
			} else {
				e = tg.rb.BuildRuleWithIncremental(text.String())
			}
			if e != nil {
				x.Violation("mgmt", "incremental re-add failed: %v", e)
				return
			}
			mrules = allRules
		}
		flags.On = cc.Flag
		env.log.Reset()
		env.tag.StopTag = false
		var res gx.Result
		withBound(x, "call "+cc.Call.String(), func() {
			if tg.pool != nil {
				res = gx.OnPool(tg.pool, cc.Call, map[string]interface{}{"stag": env.tag, "flags": flags}, env.tag)
			} else {
				res = gx.OnEngine(tg.g, tg.rb, cc.Call, env.tag)
			}
		})
		m, _ := gx.Lookup(cc.Call.Method)
		shape, _, _ := models.EffectiveShape(m, c.EM)
		x.Class("shape:" + shape)
		trace := env.log.Snapshot()
		in := models.Input{Rules: mrules, Call: cc.Call, EM: c.EM, Trace: trace, Err: res.Err != nil, Panic: res.Panic, Result: res.Map, SkipResult: true}
		for _, v := range models.Validate(in) {
			x.Violation("model:"+v.Kind+"/"+shape, "call %d %s: %s", ci, cc.Call, v.Msg)
		}
		if x.Failed() {
			return
		}
		want := map[string]string{}
		concurrentReturners := 0
		for _, e := range trace {
			if e.Kind != "S" {
				continue
			}
			r := byName[e.Name]
			if r.fails() {
				x.Class("failing-rule-ran")
				x.NonTrivial()
			}
			if ok, lit := r.returns(cc.Flag); ok {
				want[r.Name] = litValue(lit)
				concurrentReturners++
			}
		}
		if concurrentReturners >= 8 && shape != gx.ShSort {
			x.Class(">=8-concurrent-returners")
			x.NonTrivial()
		}
		got := map[string]string{}
		for k, v := range res.Map {
			got[k] = fmt.Sprint(v)
		}
		sig := shape
		for k, v := range got {
			w, ok := want[k]
			switch {
			case !ok && returnedBefore[k]:
				x.Violation("stale-entry/"+sig, "call %d %s: result map has entry %q=%s, but the rule did not return in this call (it did in an earlier call on the same engine)", ci, cc.Call, k, v)
			case !ok:
				x.Violation("extra-entry/"+sig+"/"+byName[k].Kind, "call %d %s: result map has entry %q=%s, but rule (kind %s) did not return in this call", ci, cc.Call, k, v, byName[k].Kind)
			case w != v:
				x.Violation("wrong-value/"+sig, "call %d %s: result map entry %q=%s, want %s", ci, cc.Call, k, v, w)
			}
		}
		for k, w := range want {
			if _, ok := got[k]; !ok {
				x.Violation("missing-entry/"+sig, "call %d %s: rule %q returned %s but has no entry in the result map", ci, cc.Call, k, w)
			}
		}
		if x.Failed() {
			x.Extra("trace", fmt.Sprint(trace))
			x.Extra("result", fmt.Sprint(sortedMap(res.Map)))
			return
		}
		for k := range returnedBefore {
			if _, ok := want[k]; !ok {
				x.Class("earlier-returner-now-absent")
				x.NonTrivial()
			}
		}
		for k := range want {
			returnedBefore[k] = true
		}
	}
	_ = sort.Strings
	_ = time.Second
}

func TestC11(t *testing.T) { runProp(t, "C11") }
