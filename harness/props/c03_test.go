package props

import (
	"fmt"
	"math"
	"reflect"
	"strings"
	"testing"

	"github.com/bilibili/gengine/builder"
	"pgregory.net/rapid"

	"verif/dsl"
	"verif/obs"
	"verif/ref"
)

// C03 - injected data is read, written and called faithfully.

// C3Inner has value and pointer receiver methods (reachable through three-level calls).
type C3Inner struct {
	Scalars
	log *obs.Log
}

func (in C3Inner) Sum(a int32, b float64) float64 {
	if in.log != nil {
		in.log.Add("CALL", fmt.Sprintf("Inner.Sum(%d,%v)", a, b), 0)
	}
	return float64(a) + 2*b
}

func (in *C3Inner) PSet(u uint64) uint64 {
	if in.log != nil {
		in.log.Add("CALL", fmt.Sprintf("*Inner.PSet(%d)", u), 0)
	}
	in.U64 = u
	return u + 1
}

// C3Outer is injected by pointer as "O".
type C3Outer struct {
	Scalars
	In  C3Inner            `json:"in"`
	PIn *C3Inner           `json:"pin"`
	MS  map[string]float32 `json:"ms"`
	Sl  []int64            `json:"sl"`
	Arr [3]uint16          `json:"arr"`
	log *obs.Log
}

func (o *C3Outer) SetI(a int64) int64 {
	o.log.Add("CALL", fmt.Sprintf("Outer.SetI(%d)", a), 0)
	o.I64 = a
	return a + 1
}

func (o *C3Outer) Mix(a int8, b uint16, c float32, s string, d bool) string {
	r := fmt.Sprintf("Outer.Mix(%d,%d,%v,%q,%v)", a, b, c, s, d)
	o.log.Add("CALL", r, 0)
	return r
}

// Renew replaces the nested pointer object (a later O.PIn.X must see the new one).
func (o *C3Outer) Renew(v int64) {
	o.log.Add("CALL", fmt.Sprintf("Outer.Renew(%d)", v), 0)
	o.PIn = &C3Inner{Scalars: Scalars{I64: v, I8: int8(v % 100), U8: 7, F64: 0.5, Str: "renewed"}, log: o.log}
}

func (o *C3Outer) NoRes(a int) { o.log.Add("CALL", fmt.Sprintf("Outer.NoRes(%d)", a), 0) }

func (o *C3Outer) Two(a uint32) (int64, string) {
	o.log.Add("CALL", fmt.Sprintf("Outer.Two(%d)", a), 0)
	return int64(a) * 3, "second"
}

// C03World is the generated host data.
type C03World struct {
	O     C3Outer            `json:"o"`
	G     Scalars            `json:"g"`  // plain-injected scalars gI8 ...
	P     Scalars            `json:"p"`  // pointer-injected scalars pI8 ...
	MSI   map[string]int64   `json:"msi"`
	MI8S  map[int8]string    `json:"mi8s"`
	MI64F map[int64]float64  `json:"mi64f"`
	MU16I map[uint16]int32   `json:"mu16i"`
	SlI16 []int16            `json:"sli16"`
	SlF32 []float32          `json:"slf32"`
	SlU8  []uint8            `json:"slu8"`
	SlStr []string           `json:"slstr"`
	Arr   [4]int32           `json:"arr"`
	VArr  [2]int64           `json:"varr"`
	Funcs []C03Func          `json:"funcs"`
}

// C03Func describes a function created at run time with reflect.MakeFunc.
type C03Func struct {
	Params  []string `json:"params"`  // kind names
	Results []string `json:"results"` // kind names
}

var kindByName = map[string]reflect.Type{
	"int": reflect.TypeOf(int(0)), "int8": reflect.TypeOf(int8(0)), "int16": reflect.TypeOf(int16(0)), "int32": reflect.TypeOf(int32(0)), "int64": reflect.TypeOf(int64(0)),
	"uint": reflect.TypeOf(uint(0)), "uint8": reflect.TypeOf(uint8(0)), "uint16": reflect.TypeOf(uint16(0)), "uint32": reflect.TypeOf(uint32(0)), "uint64": reflect.TypeOf(uint64(0)),
	"float32": reflect.TypeOf(float32(0)), "float64": reflect.TypeOf(float64(0)), "string": reflect.TypeOf(""), "bool": reflect.TypeOf(false),
}

var numKindNames = []string{"int", "int8", "int16", "int32", "int64", "uint", "uint8", "uint16", "uint32", "uint64", "float32", "float64"}

func makeFunc(name string, f C03Func, l *obs.Log) interface{} {
	var in, out []reflect.Type
	for _, p := range f.Params {
		in = append(in, kindByName[p])
	}
	for _, r := range f.Results {
		out = append(out, kindByName[r])
	}
	ft := reflect.FuncOf(in, out, false)
	fn := reflect.MakeFunc(ft, func(args []reflect.Value) []reflect.Value {
		var parts []string
		w := 0.0
		for i, a := range args {
			parts = append(parts, fmt.Sprintf("%s:%v", a.Kind(), a.Interface()))
			switch v := ref.FromReflect(a); v.C {
			case 'i':
				w += float64(i+1) * float64(v.I)
			case 'u':
				w += float64(i+1) * float64(v.U)
			case 'f':
				w += float64(i+1) * v.F
			case 's':
				w += float64(i+1) * float64(len(v.S))
			case 'b':
				if v.B {
					w += float64(i + 1)
				}
			}
		}
		l.Add("CALL", name+"("+strings.Join(parts, ",")+")", 0)
		var res []reflect.Value
		for j, rt := range out {
			rv := reflect.New(rt).Elem()
			switch rt.Kind() {
			case reflect.Int64:
				rv.SetInt(int64(math.Mod(w, 1000)) + int64(j))
			case reflect.Float64:
				rv.SetFloat(w / 2)
			case reflect.String:
				rv.SetString(fmt.Sprintf("r%d", int64(w)%100))
			}
			res = append(res, rv)
		}
		return res
	})
	return fn.Interface()
}

func copyMap(m interface{}) interface{} {
	v := reflect.ValueOf(m)
	out := reflect.MakeMap(v.Type())
	for _, k := range v.MapKeys() {
		out.SetMapIndex(k, v.MapIndex(k))
	}
	return out.Interface()
}

// inject builds fresh host objects plus recording functions bound to l.
func (w *C03World) inject(l *obs.Log) map[string]interface{} {
	o := w.O
	o.log = l
	o.In.log = l
	if w.O.PIn != nil {
		pi := *w.O.PIn
		pi.log = l
		o.PIn = &pi
	}
	o.MS = copyMap(w.O.MS).(map[string]float32)
	o.Sl = append([]int64{}, w.O.Sl...)
	m := map[string]interface{}{"O": &o}
	gv := reflect.ValueOf(w.G)
	pv := reflect.ValueOf(w.P)
	for _, f := range scalarFields {
		m["g"+f.Name] = gv.FieldByName(f.Name).Interface()
		pp := reflect.New(pv.FieldByName(f.Name).Type())
		pp.Elem().Set(pv.FieldByName(f.Name))
		m["p"+f.Name] = pp.Interface()
	}
	msi := copyMap(w.MSI).(map[string]int64)
	m["msi"] = msi
	pmsi := copyMap(w.MSI).(map[string]int64)
	m["pmsi"] = &pmsi
	m["mi8s"] = copyMap(w.MI8S)
	m["mi64f"] = copyMap(w.MI64F)
	m["mu16i"] = copyMap(w.MU16I)
	m["sli16"] = append([]int16{}, w.SlI16...)
	psl := append([]int16{}, w.SlI16...)
	m["psli16"] = &psl
	m["slf32"] = append([]float32{}, w.SlF32...)
	m["slu8"] = append([]uint8{}, w.SlU8...)
	m["slstr"] = append([]string{}, w.SlStr...)
	arr := w.Arr
	m["parr"] = &arr
	m["varr"] = w.VArr
	for i, f := range w.Funcs {
		m[fmt.Sprintf("f%d", i)] = makeFunc(fmt.Sprintf("f%d", i), f, l)
	}
	m["out"] = func(id int64, v interface{}) { l.Add("OUT", fmt.Sprintf("%d=%s", id, ref.FromInterface(v)), 0) }
	return m
}

// C03Mut is what the host program does to the injected objects between the first and the
// second execution on the same data context.
type C03Mut struct {
	SwapPIn bool    `json:"swap_pin,omitempty"`
	NewPIn  Scalars `json:"new_pin"`
	SetO    bool    `json:"set_o,omitempty"`
	NewO    Scalars `json:"new_o"`
	SetMap  bool    `json:"set_map,omitempty"`
	MapVal  int64   `json:"map_val,omitempty"`
	// GrowPtr: the host appends to the pointer-injected slice (which reallocates it) and
	// assigns a fresh map to the pointer-injected map variable; an injected pointer must
	// keep referring to the host's variable, not to the collection it held when injected.
	GrowPtr bool `json:"grow_ptr,omitempty"`
	// LateInject: the name late64, which the first rule assigned while it was an ordinary
	// local, is injected (pointer to an int64) before the same rule runs again: the same
	// assignment must now store through the injected pointer.
	LateInject bool `json:"late_inject,omitempty"`
	// NewFuncs, if set, are re-injected under the names f0, f1, ... (same arity, wider or
	// other numeric parameter kinds): the same call sites then convert to other types.
	NewFuncs []C03Func `json:"new_funcs,omitempty"`
}

type C03Case struct {
	World C03World  `json:"world"`
	Rule  *dsl.Rule `json:"rule"`
	// Rule2, if present, runs on the same data context after the host applied Mut.
	Rule2 *dsl.Rule `json:"rule2,omitempty"`
	// Rerun: the first rule itself is executed again after Mut (same compiled call sites).
	Rerun bool   `json:"rerun,omitempty"`
	Mut   C03Mut `json:"mut"`
}

func (m *C03Mut) apply(inj map[string]interface{}, l *obs.Log, reinject func(name string, v interface{})) {
	for i, f := range m.NewFuncs {
		name := fmt.Sprintf("f%d", i)
		fn := makeFunc(name, f, l)
		inj[name] = fn
		if reinject != nil {
			reinject(name, fn)
		}
	}
	o := inj["O"].(*C3Outer)
	if m.SwapPIn {
		o.PIn = &C3Inner{Scalars: m.NewPIn, log: l}
	}
	if m.SetO {
		o.Scalars = m.NewO
		o.In.Scalars = m.NewPIn
	}
	if m.LateInject {
		v := new(int64)
		*v = -1
		inj["late64"] = v
		if reinject != nil {
			reinject("late64", v)
		}
	}
	if m.GrowPtr {
		ps := inj["psli16"].(*[]int16)
		*ps = append(*ps, int16(m.MapVal), 7, 8, 9, 10, 11, 12, 13, 14)
		pm := inj["pmsi"].(*map[string]int64)
		*pm = map[string]int64{"k1": m.MapVal, "k2": 2, "k9": 9}
	}
	if m.SetMap {
		inj["msi"].(map[string]int64)["k1"] = m.MapVal
		o.MS["k2"] = float32(m.MapVal) / 2
		inj["sli16"].([]int16)[0] = int16(m.MapVal)
	}
}

// smallScalars keeps values small so that most conversions are representable.
func smallScalars(t *rapid.T, label string) Scalars {
	iv := func(l string, lo, hi int) int { return uni(t, label+l, lo, hi) }
	return Scalars{
		I: iv("I", -100, 100), I8: int8(iv("I8", -100, 100)), I16: int16(iv("I16", -300, 300)), I32: int32(iv("I32", -70000, 70000)), I64: int64(iv("I64", -100, 100)),
		U: uint(iv("U", 0, 100)), U8: uint8(iv("U8", 0, 200)), U16: uint16(iv("U16", 0, 300)), U32: uint32(iv("U32", 0, 70000)), U64: uint64(iv("U64", 0, 100)),
		F32: float32(iv("F32", -64, 64)) / 4, F64: float64(iv("F64", -64, 64)) / 4, Str: genStr(t, label+"Str"), B: rapid.Bool().Draw(t, label+"B"),
	}
}

func genC03World(t *rapid.T) C03World {
	w := C03World{G: smallScalars(t, "g."), P: smallScalars(t, "p.")}
	w.G.I8 = int8(uni(t, "g.I8.key", -2, 3)) // used as a key / index variable
	w.O.Scalars = smallScalars(t, "o.")
	w.O.In.Scalars = smallScalars(t, "o.in.")
	w.O.PIn = &C3Inner{Scalars: smallScalars(t, "o.pin.")}
	w.O.MS = map[string]float32{}
	w.MSI = map[string]int64{}
	for _, k := range c02Keys {
		if pct(t, "O.MS."+k, 60) {
			w.O.MS[k] = float32(uni(t, "O.MS.v", -8, 8)) / 2
		}
		if pct(t, "msi."+k, 60) {
			w.MSI[k] = int64(uni(t, "msi.v", -50, 50))
		}
	}
	if pct(t, "msi.padded", 50) {
		w.MSI[" k1"] = int64(uni(t, "msi.pv", 51, 90))
		w.O.MS["k2 "] = float32(uni(t, "O.MS.pv", 9, 16))
	}
	if pct(t, "msi.empty", 50) {
		w.MSI[""] = int64(uni(t, "msi.ev", 1, 50))
	}
	if pct(t, "O.MS.empty", 50) {
		w.O.MS[""] = float32(uni(t, "O.MS.ev", 1, 8))
	}
	w.O.Sl = []int64{int64(uni(t, "O.Sl0", -9, 9)), int64(uni(t, "O.Sl1", -9, 9)), 5}
	w.O.Arr = [3]uint16{1, uint16(uni(t, "O.Arr1", 0, 9)), 3}
	w.MI8S = map[int8]string{1: "one", -2: genStr(t, "mi8s")}
	w.MI64F = map[int64]float64{0: 0.5, 7: float64(uni(t, "mi64f", -9, 9))}
	w.MU16I = map[uint16]int32{w.O.U16: 11, 3: int32(uni(t, "mu16i", -9, 9)), uint16(w.G.U8): 12}
	w.SlI16 = []int16{int16(uni(t, "sli16", -9, 9)), 2, 3, 4}
	w.SlF32 = []float32{0.5, float32(uni(t, "slf32", -9, 9)), 2}
	w.SlU8 = []uint8{1, 2, uint8(uni(t, "slu8", 0, 9))}
	w.SlStr = []string{"a", genStr(t, "slstr")}
	w.Arr = [4]int32{1, 2, 3, int32(uni(t, "arr", -9, 9))}
	w.VArr = [2]int64{7, 8}
	nf := uni(t, "nfuncs", 1, 3)
	for i := 0; i < nf; i++ {
		var f C03Func
		np := uni(t, fmt.Sprintf("f%d_np", i), 0, 5)
		for j := 0; j < np; j++ {
			if pct(t, fmt.Sprintf("f%d_p%d_num", i, j), 75) {
				f.Params = append(f.Params, numKindNames[uni(t, fmt.Sprintf("f%d_p%d", i, j), 0, len(numKindNames)-1)])
			} else {
				f.Params = append(f.Params, []string{"string", "bool"}[uni(t, fmt.Sprintf("f%d_p%d_sb", i, j), 0, 1)])
			}
		}
		f.Results = [][]string{{"int64"}, {"float64", "string"}, {"string"}, {}, {"int64", "int64"}}[uni(t, fmt.Sprintf("f%d_res", i), 0, 4)]
		w.Funcs = append(w.Funcs, f)
	}
	return w
}

// c03Gen generates straight-line programs of reads, writes and calls.
type c03Gen struct {
	late bool // the rule assigns the local late64
	t      *rapid.T
	w      *C03World
	n      int
	locals map[byte][]string
	nOut   int64
	nt     map[string]bool
}

func (g *c03Gen) lbl(s string) string { g.n++; return fmt.Sprintf("%s#%d", s, g.n) }

func kindClass(k string) byte {
	switch {
	case strings.HasPrefix(k, "int"):
		return 'i'
	case strings.HasPrefix(k, "uint"):
		return 'u'
	case strings.HasPrefix(k, "float"):
		return 'f'
	case k == "string":
		return 's'
	}
	return 'b'
}

var fieldKind = map[string]string{"I": "int", "I8": "int8", "I16": "int16", "I32": "int32", "I64": "int64", "U": "uint", "U8": "uint8", "U16": "uint16", "U32": "uint32", "U64": "uint64", "F32": "float32", "F64": "float64", "Str": "string", "B": "bool"}

func kindRange(k string) (lo, hi int64) {
	switch k {
	case "int8":
		return -128, 127
	case "int16":
		return -32768, 32767
	case "int32":
		return -2147483648, 2147483647
	case "int", "int64":
		return math.MinInt64, math.MaxInt64
	case "uint8":
		return 0, 255
	case "uint16":
		return 0, 65535
	case "uint32":
		return 0, 4294967295
	case "uint", "uint64":
		return 0, math.MaxInt64
	case "float32":
		return -(1 << 24), 1 << 24
	}
	return -(1 << 53), 1 << 53
}

// fieldPath draws a readable/writable struct-field path of the wanted field name.
func (g *c03Gen) fieldPath(f string) string {
	switch uni(g.t, g.lbl("fpath"), 0, 3) {
	case 0, 1:
		return "O." + f
	case 2:
		g.nt["two-level-path"] = true
		return "O.In." + f
	}
	g.nt["two-level-path"] = true
	return "O.PIn." + f
}

func (g *c03Gen) fieldOfClass(class byte) string {
	var fs []string
	for _, f := range scalarFields {
		if f.Class == class {
			fs = append(fs, f.Name)
		}
	}
	return fs[uni(g.t, g.lbl("field"), 0, len(fs)-1)]
}

// value generates a value expression of the given class that fits kind k (as far as the
// generator can know); literal boundaries of k are included.
func (g *c03Gen) value(class byte, k string) *dsl.Expr {
	t := g.t
	lo, hi := kindRange(k)
	if ls := g.locals[class]; len(ls) > 0 && pct(t, g.lbl("uselocal"), 25) {
		return dsl.Var(ls[uni(t, g.lbl("local"), 0, len(ls)-1)])
	}
	switch class {
	case 'i':
		switch uni(t, g.lbl("ival"), 0, 6) {
		case 0:
			return dsl.Int([]int64{lo, hi, 0, -1, 1}[uni(t, g.lbl("bound"), 0, 4)])
		case 1, 2:
			v := int64(uni(t, g.lbl("small"), -100, 100))
			if v < lo {
				v = 0
			}
			return dsl.Int(v)
		case 3:
			return dsl.Var(g.fieldPath(g.fieldOfClass('i')))
		case 4:
			return dsl.Bin([]string{"+", "-", "*"}[uni(t, g.lbl("op"), 0, 2)], dsl.Int(int64(uni(t, g.lbl("a"), 0, 9))), dsl.Int(int64(uni(t, g.lbl("b"), 0, 9))))
		case 5:
			return dsl.Var("g" + g.fieldOfClass('i'))
		}
		return dsl.Index("sli16", dsl.Int(int64(uni(t, g.lbl("idx"), 0, 3))))
	case 'u':
		switch uni(t, g.lbl("uval"), 0, 3) {
		case 0:
			return dsl.Var(g.fieldPath(g.fieldOfClass('u')))
		case 1:
			return dsl.Var("g" + g.fieldOfClass('u'))
		case 2:
			return dsl.Index("slu8", dsl.Int(int64(uni(t, g.lbl("idx"), 0, 2))))
		}
		return dsl.Bin("+", dsl.Var("O.U8"), dsl.Var("gU16"))
	case 'f':
		switch uni(t, g.lbl("fval"), 0, 3) {
		case 0:
			return dsl.Real(float64(uni(t, g.lbl("fl"), -64, 64)) / 4)
		case 1:
			return dsl.Real(float64(uni(t, g.lbl("fint"), 0, 100)))
		case 2:
			return dsl.Var(g.fieldPath(g.fieldOfClass('f')))
		}
		return dsl.Index("slf32", dsl.Int(int64(uni(t, g.lbl("idx"), 0, 2))))
	case 's':
		if pct(t, g.lbl("slit"), 60) {
			return dsl.Str(genStr(t, g.lbl("sv")))
		}
		return dsl.Var(g.fieldPath("Str"))
	}
	if pct(t, g.lbl("blit"), 60) {
		return dsl.Bool(rapid.Bool().Draw(t, g.lbl("bv")))
	}
	return dsl.Var(g.fieldPath("B"))
}

// srcClass draws the class of a value stored into a target of class tc; cross-class
// sources only where C03 promises them (struct fields, pointer-injected scalars, call
// arguments).
func (g *c03Gen) srcClass(tc byte, cross bool) byte {
	if tc == 's' || tc == 'b' || !cross || !pct(g.t, g.lbl("cross"), 40) {
		return tc
	}
	g.nt["class-crossing"] = true
	switch tc {
	case 'i':
		return []byte{'u', 'f'}[uni(g.t, g.lbl("xc"), 0, 1)]
	case 'u':
		return []byte{'i', 'f'}[uni(g.t, g.lbl("xc"), 0, 1)]
	}
	return []byte{'i', 'u'}[uni(g.t, g.lbl("xc"), 0, 1)]
}

// crossValue makes a value of class sc that is representable in kind k.
func (g *c03Gen) crossValue(sc byte, k string) *dsl.Expr {
	tc := kindClass(k)
	if sc == tc {
		return g.value(sc, k)
	}
	t := g.t
	switch sc {
	case 'i': // into uint or float target: non-negative small
		return dsl.Int(int64(uni(t, g.lbl("xi"), 0, 100)))
	case 'u':
		return g.value('u', "uint8")
	default: // float into integer target: integral
		v := float64(uni(t, g.lbl("xf"), 0, 100))
		if tc == 'i' && pct(t, g.lbl("neg"), 30) && k != "uint8" {
			v = -v
		}
		return dsl.Real(v)
	}
}

type c03Target struct {
	expr  *dsl.Expr
	kind  string
	cross bool
}

func (g *c03Gen) target() c03Target {
	t := g.t
	tk := uni(t, g.lbl("tkind"), 0, 11)
	if tk == 11 && !pct(t, g.lbl("nonaddr"), 25) {
		tk = uni(t, g.lbl("tkind2"), 0, 10)
	}
	switch tk {
	case 0, 1, 2, 3:
		f := scalarFields[uni(t, g.lbl("tf"), 0, len(scalarFields)-1)].Name
		return c03Target{dsl.Var(g.fieldPath(f)), fieldKind[f], true}
	case 4, 5:
		f := scalarFields[uni(t, g.lbl("tf"), 0, len(scalarFields)-1)].Name
		g.nt["pointer-injected-scalar"] = true
		return c03Target{dsl.Var("p" + f), fieldKind[f], true}
	case 6:
		name := []string{"msi", "pmsi"}[uni(t, g.lbl("mp"), 0, 1)]
		return c03Target{dsl.Index(name, g.strKey()), "int64", false}
	case 7:
		switch uni(t, g.lbl("mk"), 0, 3) {
		case 0:
			return c03Target{dsl.Index("mi8s", g.intKeyFor("int8")), "string", false}
		case 1:
			return c03Target{dsl.Index("mi64f", g.intKeyFor("int64")), "float64", false}
		case 2:
			return c03Target{dsl.Index("mu16i", g.uintKeyVar()), "int32", false}
		}
		return c03Target{dsl.Index("O.MS", g.strKey()), "float32", false}
	case 8:
		name := []string{"sli16", "psli16"}[uni(t, g.lbl("sp"), 0, 1)]
		return c03Target{dsl.Index(name, g.sliceKey(4)), "int16", false}
	case 9:
		switch uni(t, g.lbl("sk"), 0, 3) {
		case 0:
			return c03Target{dsl.Index("slf32", g.sliceKey(3)), "float32", false}
		case 1:
			return c03Target{dsl.Index("slu8", g.sliceKey(3)), "uint8", false}
		case 2:
			return c03Target{dsl.Index("slstr", g.sliceKey(2)), "string", false}
		}
		return c03Target{dsl.Index("O.Sl", g.sliceKey(3)), "int64", false}
	case 10:
		if pct(t, g.lbl("oarr"), 50) {
			return c03Target{dsl.Index("O.Arr", g.sliceKey(3)), "uint16", false}
		}
		return c03Target{dsl.Index("parr", g.sliceKey(4)), "int32", false}
	}
	// non-addressable injections: the store must fail and leave the host value untouched
	g.nt["non-addressable-target"] = true
	if pct(t, g.lbl("plain"), 50) {
		return c03Target{dsl.Var("gI64"), "int64", false}
	}
	return c03Target{dsl.Index("varr", dsl.Int(0)), "int64", false}
}

func (g *c03Gen) strKey() *dsl.Expr {
	if pct(g.t, g.lbl("emptykey"), 12) {
		// a key variable that holds the empty string (a key like any other)
		g.nt["empty-string-key-variable"] = true
		return dsl.Var("kse")
	}
	if ls := g.locals['s']; len(ls) > 0 && pct(g.t, g.lbl("skv"), 30) {
		return dsl.Var(ls[uni(g.t, g.lbl("sk"), 0, len(ls)-1)])
	}
	// literal keys, also with leading / trailing blanks (which are part of the key)
	return dsl.Str([]string{"k1", "k2", "k3", "zz", " k1", "k2 ", " k3 "}[uni(g.t, g.lbl("key"), 0, 6)])
}

// sliceKey: literal index, or a variable of class int of a width different from int.
func (g *c03Gen) sliceKey(n int) *dsl.Expr {
	if pct(g.t, g.lbl("varidx"), 30) {
		g.nt["variable-key-of-other-width"] = true
		return dsl.Var([]string{"ki8", "ki64"}[uni(g.t, g.lbl("kv"), 0, 1)])
	}
	return dsl.Int(int64(uni(g.t, g.lbl("idx"), 0, n-1)))
}

// intKeyFor: literal key or variable key of another signed width.
func (g *c03Gen) intKeyFor(k string) *dsl.Expr {
	if pct(g.t, g.lbl("varkey"), 40) {
		g.nt["variable-key-of-other-width"] = true
		return dsl.Var([]string{"ki8", "ki64", "O.I16"}[uni(g.t, g.lbl("kv"), 0, 2)])
	}
	return dsl.Int(int64(uni(g.t, g.lbl("key"), -2, 7)))
}

// uintKeyVar: unsigned-keyed maps get variable keys of the unsigned class only.
func (g *c03Gen) uintKeyVar() *dsl.Expr {
	g.nt["variable-key-of-other-width"] = true
	return dsl.Var([]string{"O.U16", "gU8", "O.U64"}[uni(g.t, g.lbl("ukv"), 0, 2)])
}

func (g *c03Gen) out(e *dsl.Expr) *dsl.Stmt {
	g.nOut++
	return dsl.CallStmt(dsl.Call("out", dsl.Int(g.nOut), e))
}

func (g *c03Gen) readable() *dsl.Expr {
	t := g.t
	switch uni(t, g.lbl("rkind"), 0, 9) {
	case 0, 1, 2:
		f := scalarFields[uni(t, g.lbl("rf"), 0, len(scalarFields)-1)].Name
		return dsl.Var(g.fieldPath(f))
	case 3:
		return dsl.Var("g" + scalarFields[uni(t, g.lbl("rf"), 0, len(scalarFields)-1)].Name)
	case 4:
		return dsl.Index([]string{"msi", "pmsi"}[uni(t, g.lbl("mp"), 0, 1)], g.strKey())
	case 5:
		switch uni(t, g.lbl("mk"), 0, 3) {
		case 0:
			return dsl.Index("mi8s", g.intKeyFor("int8"))
		case 1:
			return dsl.Index("mi64f", g.intKeyFor("int64"))
		case 2:
			return dsl.Index("mu16i", g.uintKeyVar())
		}
		return dsl.Index("O.MS", g.strKey())
	case 6:
		return dsl.Index([]string{"sli16", "psli16"}[uni(t, g.lbl("sp"), 0, 1)], g.sliceKey(4))
	case 7:
		switch uni(t, g.lbl("sk"), 0, 3) {
		case 0:
			return dsl.Index("slf32", g.sliceKey(3))
		case 1:
			return dsl.Index("slu8", g.sliceKey(3))
		case 2:
			return dsl.Index("slstr", g.sliceKey(2))
		}
		return dsl.Index("O.Sl", g.sliceKey(3))
	case 8:
		if pct(t, g.lbl("oarr"), 50) {
			return dsl.Index("O.Arr", g.sliceKey(3))
		}
		return dsl.Index("parr", g.sliceKey(4))
	}
	return dsl.Index("varr", dsl.Int(int64(uni(t, g.lbl("vi"), 0, 1))))
}

// arg generates an argument for a parameter of kind k (numeric parameters accept any
// numeric class when representable).
func (g *c03Gen) arg(k string) *dsl.Expr {
	tc := kindClass(k)
	if tc == 's' || tc == 'b' {
		return g.value(tc, k)
	}
	sc := g.srcClass(tc, true)
	if sc != tc {
		return g.crossValue(sc, k)
	}
	if pct(g.t, g.lbl("argsmall"), 70) {
		// small literal or small field: representable in every numeric kind
		switch tc {
		case 'i':
			v := int64(uni(g.t, g.lbl("av"), -100, 100))
			if lo, _ := kindRange(k); v < lo {
				v = -v
			}
			return dsl.Int(v)
		case 'u':
			return g.value('u', "uint8")
		default:
			if pct(g.t, g.lbl("decimal"), 35) {
				// decimals that are not exact in binary: rounded once, to the parameter's width
				return dsl.Real([]float64{0.1, 2.75, -0.3, 1e-3, 3.14159, 100.01}[uni(g.t, g.lbl("dec"), 0, 5)])
			}
			return dsl.Real(float64(uni(g.t, g.lbl("af"), -64, 64)) / 4)
		}
	}
	return g.value(tc, k)
}

func (g *c03Gen) callExpr() *dsl.Expr {
	t := g.t
	switch uni(t, g.lbl("ckind"), 0, 7) {
	case 0, 1, 2:
		i := uni(t, g.lbl("fn"), 0, len(g.w.Funcs)-1)
		f := g.w.Funcs[i]
		var args []*dsl.Expr
		classes := map[byte]bool{}
		for _, p := range f.Params {
			args = append(args, g.arg(p))
			classes[kindClass(p)] = true
		}
		if len(f.Params) >= 2 && len(classes) >= 2 {
			g.nt["call>=2-params-of-different-classes"] = true
		}
		return dsl.Call(fmt.Sprintf("f%d", i), args...)
	case 3:
		return dsl.Call("O.SetI", g.arg("int64"))
	case 4:
		g.nt["call>=2-params-of-different-classes"] = true
		return dsl.Call("O.Mix", g.arg("int8"), g.arg("uint16"), g.arg("float32"), g.arg("string"), g.arg("bool"))
	case 5:
		if pct(t, g.lbl("renew"), 40) {
			g.nt["nested-pointer-replaced-inside-the-rule"] = true
			return dsl.Call("O.Renew", dsl.Int(int64(uni(t, g.lbl("rv"), -90, 90))))
		}
		return dsl.Call("O.Two", g.arg("uint32"))
	case 6:
		g.nt["three-level-call"] = true
		if pct(t, g.lbl("pin"), 50) {
			return dsl.Call("O.PIn.PSet", g.arg("uint64"))
		}
		return dsl.Call([]string{"O.In.Sum", "O.PIn.Sum"}[uni(t, g.lbl("sum"), 0, 1)], g.arg("int32"), g.arg("float64"))
	}
	return dsl.Call("O.NoRes", g.arg("int"))
}

func (g *c03Gen) stmts() []*dsl.Stmt {
	t := g.t
	var out []*dsl.Stmt
	// key variables used by element accesses
	out = append(out, dsl.Assign(dsl.Var("ki8"), "=", dsl.Var("gI8")), dsl.Assign(dsl.Var("ki64"), "=", dsl.Int(int64(uni(t, "ki64", 0, 2)))), dsl.Assign(dsl.Var("kse"), "=", dsl.Str("")))
	n := uni(t, "nstmts", 3, 10)
	if g.late {
		// a plain assignment to a name that is an ordinary local now and may be injected later
		out = append(out, dsl.Assign(dsl.Var("late64"), "=", dsl.Int(int64(uni(t, "late_val", 1, 90)))))
	}
	for i := 0; i < n; i++ {
		switch k := uni(t, g.lbl("stmt"), 0, 9); {
		case k <= 2: // read
			out = append(out, g.out(g.readable()))
		case k <= 6: // write
			tg := g.target()
			tc := kindClass(tg.kind)
			sc := g.srcClass(tc, tg.cross)
			var v *dsl.Expr
			if sc != tc {
				v = g.crossValue(sc, tg.kind)
			} else {
				v = g.value(tc, tg.kind)
				if tc != 's' && tc != 'b' && tg.kind != "int64" && tg.kind != "uint64" && tg.kind != "float64" && tg.kind != "int" && tg.kind != "uint" {
					g.nt["width-changing-store"] = true
				}
			}
			op := "="
			if tc != 'b' && tc != 's' && pct(t, g.lbl("compound"), 15) {
				op = []string{"+=", "-=", "*="}[uni(t, g.lbl("cop"), 0, 2)]
				v = dsl.Int(int64(uni(t, g.lbl("cv"), 0, 3)))
				if tc == 'f' {
					v = dsl.Real(float64(uni(t, g.lbl("cvf"), 0, 6)) / 2)
				}
				if tc == 'u' {
					op = "+="
				}
			}
			if op == "=" && pct(t, g.lbl("declop"), 30) {
				// ":=" is the same store as "=" whatever the target is
				op = ":="
				g.nt["store-with-declaration-operator"] = true
			}
			out = append(out, dsl.Assign(tg.expr, op, v))
			if pct(t, g.lbl("readback"), 50) && tg.expr.K == dsl.KVar && !strings.HasPrefix(tg.expr.Name, "p") {
				out = append(out, g.out(dsl.Var(tg.expr.Name)))
			}
		case k <= 7: // local
			cl := []byte{'i', 'u', 'f', 's'}[uni(t, g.lbl("lclass"), 0, 3)]
			name := fmt.Sprintf("v%c%d", cl, len(g.locals[cl]))
			out = append(out, dsl.Assign(dsl.Var(name), []string{"=", ":="}[uni(t, g.lbl("lop"), 0, 1)], g.value(cl, "int64")))
			g.locals[cl] = append(g.locals[cl], name)
		default: // call
			c := g.callExpr()
			hasResult := !strings.HasSuffix(c.Name, "NoRes") && !strings.HasSuffix(c.Name, "Renew")
			if strings.HasPrefix(c.Name, "f") {
				var fi int
				fmt.Sscanf(c.Name, "f%d", &fi)
				hasResult = len(g.w.Funcs[fi].Results) > 0
			}
			if pct(t, g.lbl("callval"), 60) && hasResult {
				out = append(out, g.out(c))
			} else {
				out = append(out, dsl.CallStmt(c))
			}
		}
	}
	return out
}

func init() {
	register(&Prop{
		ID:   "C03",
		Rule: "one straight-line rule of 3-10 statements over a generated host world: a pointer-injected struct with a field of every integer/unsigned/float width, string and bool, a nested struct and a nested pointer struct (two-level paths), maps (string, int8, int64 and uint16 keys; by value and by pointer), slices and arrays of several element kinds (by value, by pointer, as struct fields), plain- and pointer-injected scalars of every kind, 1-3 functions created at run time from a generated parameter-kind list (0-5 parameters mixing all numeric widths, string, bool) and a fixed method catalogue (pointer, value and three-level receivers); statements: reads reported through an observer, stores with = and := of in-range values (literal boundaries of the target width, locals, arithmetic, other fields; cross-class only into struct fields and pointer-injected scalars; compound stores), element access with literal, string and variable keys of another width, calls with literal/variable/field/element/expression arguments, stores through non-addressable injections; oracle = reference interpreter over an independent copy of the world: the observer log (values read, arguments received, results), error-ness and the complete final host world must agree. Between two executions on the same data context the host may change fields and elements, re-inject functions with other parameter kinds, append to the pointer-injected slice (reallocation), assign a fresh map to the pointer-injected map variable, and inject (as a pointer) a name that the rule so far assigned as an ordinary local. Non-trivial: the program contains a width-changing or class-crossing store, a two-level path, a variable key of another width, or a call with >= 2 parameters of different classes; distinct by case hash",
		New:  func() interface{} { return &C03Case{} },
		Gen: func(t *rapid.T) interface{} {
			c := &C03Case{World: genC03World(t)}
			g := &c03Gen{t: t, w: &c.World, locals: map[byte][]string{}, nt: map[string]bool{}}
			g.late = pct(t, "assigns_late_name", 25)
			body := &dsl.Block{Stmts: g.stmts(), HasRet: true, Ret: dsl.Int(1)}
			c.Rule = &dsl.Rule{Name: "c03", HasSal: true, Sal: 1, Body: body}
			if pct(t, "second_execution", 40) {
				// the host changes the injected objects, then a second rule runs on the same context
				c.Mut = C03Mut{SwapPIn: pct(t, "mut_swap", 70), NewPIn: smallScalars(t, "mut.pin."), SetO: pct(t, "mut_o", 50), NewO: smallScalars(t, "mut.o."), SetMap: pct(t, "mut_map", 50), MapVal: int64(uni(t, "mut_mapval", -50, 50)), GrowPtr: pct(t, "mut_growptr", 50)}
				if pct(t, "rerun_same_rule", 45) {
					// the same rule (same compiled call sites) runs again; the functions were
					// re-injected with other numeric parameter kinds of the same arity
					c.Rerun = true
					c.Mut.LateInject = g.late && pct(t, "mut_late_inject", 70)
					for _, f := range c.World.Funcs {
						nf := C03Func{Results: f.Results}
						for j, p := range f.Params {
							np := p
							if kindClass(p) != 's' && kindClass(p) != 'b' && pct(t, fmt.Sprintf("widen%d", j), 70) {
								switch kindClass(p) {
								case 'i':
									np = []string{"int64", "int64", "float64", "int32"}[uni(t, fmt.Sprintf("wk%d", j), 0, 3)]
								case 'u':
									np = []string{"uint64", "uint64", "float64", "int64"}[uni(t, fmt.Sprintf("wk%d", j), 0, 3)]
								default:
									np = "float64"
								}
							}
							nf.Params = append(nf.Params, np)
						}
						c.Mut.NewFuncs = append(c.Mut.NewFuncs, nf)
					}
				} else {
					g2 := &c03Gen{t: t, w: &c.World, locals: map[byte][]string{}, nt: g.nt, nOut: 100}
					c.Rule2 = &dsl.Rule{Name: "c03b", HasSal: true, Sal: 0, Body: &dsl.Block{Stmts: g2.stmts(), HasRet: true, Ret: dsl.Int(2)}}
				}
			}
			return c
		},
		Check: func(ci interface{}, x *Ctx) {
			c := ci.(*C03Case)
			rules := []*dsl.Rule{c.Rule}
			if c.Rule2 != nil {
				rules = append(rules, c.Rule2)
				x.Class("second-execution-after-host-mutation")
				if c.Mut.GrowPtr {
					x.Class("host-reallocated-pointer-injected-slice-and-replaced-pointer-injected-map")
				}
			}
			text, _ := dsl.PrintRules(rules, nil)
			if tooCostly(x, text) {
				return
			}
			if c.Rerun {
				rules = append(rules, c.Rule)
				x.Class("same-rule-re-executed-after-re-injection")
				if c.Mut.LateInject {
					x.Class("a-name-assigned-as-a-local-is-injected-before-the-rule-runs-again")
				}
			}
			el, rl := &obs.Log{}, &obs.Log{}
			einj := c.World.inject(el)
			rinj := c.World.inject(rl)
			// static classification
			for _, r := range rules {
				for _, s := range r.Body.Stmts {
					classifyC03(x, s)
				}
			}
			var rb *builder.RuleBuilder
			fail := func(sig, f string, a ...interface{}) {
				x.Violation(sig, f+"\nprogram:\n%s\ngengine log:   %v\nreference log: %v\nworld: %s\nhost mutation before the second rule: %s", append(a, text, traceStrings(el.Snapshot()), traceStrings(rl.Snapshot()), jsonStr(c.World), jsonStr(c.Mut))...)
			}
			for phase, r := range rules {
				if phase == 1 {
					c.Mut.apply(einj, el, func(name string, v interface{}) { rb.Dc.Add(name, v) })
					c.Mut.apply(rinj, rl, nil)
				}
				env := ref.NewEnv(rinj, r)
				want := env.Run()
				if env.Unspecified != "" {
					x.Class("skipped-unspecified:" + env.Unspecified)
					return
				}
				if rb == nil {
					var err error
					rb, err = buildDSL(text, einj)
					if err != nil {
						x.Violation("compile", "generated text was rejected: %v\n%s", err, text)
						return
					}
				}
				_, _, gerr, pan := runOne(rb, r.Name)
				ot, rt := traceStrings(el.Snapshot()), traceStrings(rl.Snapshot())
				ph := fmt.Sprintf("execution %d (rule %s): ", phase+1, r.Name)
				if pan != "" {
					fail("panic:"+panicClass(pan), ph+"Execute panicked: %s", truncate(pan, 200))
					return
				}
				if want.Err != nil {
					x.Class("expected-error:" + want.Err.Class)
				}
				if strings.Join(ot, " ") != strings.Join(rt, " ") {
					i := 0
					for i < len(ot) && i < len(rt) && ot[i] == rt[i] {
						i++
					}
					what := "?"
					if i < len(rt) {
						what = rt[i]
					} else if i < len(ot) {
						what = ot[i]
					}
					kind := "read"
					if strings.HasPrefix(what, "CALL") {
						kind = "call"
					}
					fail("log-"+kind, ph+"observer logs (values read, arguments received, results) diverge at entry %d", i)
					return
				}
				if (want.Err != nil) != (gerr != nil) {
					if want.Err != nil {
						fail("value-for-error:"+want.Err.Class, ph+"reference semantics fail (%v) but gengine succeeded", want.Err)
					} else {
						fail("error-for-value", ph+"gengine failed (%s) but the reference semantics succeed", truncate(gerr.Error(), 400))
					}
					return
				}
				if d := worldDiff(einj, rinj); len(d) > 0 {
					fail("world", ph+"final host state differs: %v", d)
					return
				}
			}
		},
	})
}

func classifyC03(x *Ctx, s *dsl.Stmt) {
	visit := func(e *dsl.Expr) {
		e.Walk(func(n *dsl.Expr) {
			switch n.K {
			case dsl.KVar:
				if strings.Count(n.Name, ".") == 2 {
					x.Class("two-level-path")
					x.NonTrivial()
				}
			case dsl.KIndex:
				if n.Key.K == dsl.KVar {
					x.Class("variable-key")
					x.NonTrivial()
				}
			case dsl.KCall:
				if len(n.Args) >= 2 && n.Name != "out" {
					x.Class("call-with->=2-args")
					x.NonTrivial()
				}
				if strings.Count(n.Name, ".") == 2 {
					x.Class("three-level-call")
				}
			}
		})
	}
	switch s.K {
	case dsl.SAssign:
		visit(s.Target)
		visit(s.Val)
		t := s.Target
		switch {
		case t.K == dsl.KIndex:
			x.Class("store:element")
		case strings.HasPrefix(t.Name, "p"):
			x.Class("store:pointer-scalar")
			x.NonTrivial()
		case strings.Contains(t.Name, "."):
			x.Class("store:field")
			x.NonTrivial()
		}
	case dsl.SCall:
		visit(s.Call)
	}
}

func TestC03(t *testing.T) { runProp(t, "C03") }
