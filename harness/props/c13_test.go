package props

import (
	"fmt"
	"testing"

	"pgregory.net/rapid"

	"verif/obs"
)

// C13 - DAG model: layers are barriers, unknown names skipped, failure stops the rest.
func init() {
	register(&Prop{
		ID:   "C13",
		Rule: "rule sets of 2-8 observer rules, layerings of 0-5 layers x 0-4 names (unknown names, empty layers, repeated names inside and across layers), random failing subset (failing statement drawn from 12 forms as in C04), schedule with 1-2 rules of a non-final layer parked on a Hold gate until the event log is quiet; engine and pool; oracle = reference DAG predicate (per-layer multiset of executions, barrier by sequence numbers, first failing layer is the last started, error iff failure, result map). Non-trivial: >=2 non-empty layers ran with a parked rule before a later start, or a failure in a non-final layer; distinct by case hash",
		New:  func() interface{} { return &SchedCase{} },
		Gen: func(t *rapid.T) interface{} {
			c := &SchedCase{QuiesMs: quiesMs()}
			c.Rules = genRules(t, 2, 8, 12, 0, 50)
			genBuildsReplacing(t, c)
			c.Pool = rapid.Bool().Draw(t, "pool")
			if c.Pool {
				genPoolSize(t, c)
			}
			c.Call.Method = "ExecuteDAGModel"
			nl := uni(t, "layers", 0, 5)
			if nl < 2 && pct(t, "more_layers", 70) {
				nl = uni(t, "layers2", 2, 5)
			}
			c.Call.DAG = make([][]string, nl)
			for i := range c.Call.DAG {
				w := uni(t, fmt.Sprintf("width%d", i), 0, 4)
				layer := []string{}
				for j := 0; j < w; j++ {
					if pct(t, fmt.Sprintf("unk%d_%d", i, j), 12) {
						layer = append(layer, fmt.Sprintf("zz%d", j))
					} else {
						layer = append(layer, c.Rules[uni(t, fmt.Sprintf("n%d_%d", i, j), 0, len(c.Rules)-1)].Name)
					}
				}
				c.Call.DAG[i] = layer
			}
			if nl >= 1 && pct(t, "wide_layer", 4) {
				// one very wide layer (names repeat): widths at and around powers of two
				li := uni(t, "wide_which", 0, nl-1)
				w := []int{31, 32, 33, 63, 64, 65, 127, 128, 129, 255, 256, 257, 258, 259, 300, 511, 512, 513, 515, 700}[uni(t, "wide_width", 0, 19)]
				layer := make([]string, w)
				for j := range layer {
					layer[j] = c.Rules[(j*7+li)%len(c.Rules)].Name
				}
				c.Call.DAG[li] = layer
			}
			c.Gates = map[string]int{}
			if nl >= 2 && pct(t, "victims", 75) {
				nv := uni(t, "nvictims", 1, 2)
				for v := 0; v < nv; v++ {
					li := uni(t, fmt.Sprintf("vlayer%d", v), 0, nl-2)
					if len(c.Call.DAG[li]) > 0 {
						n := c.Call.DAG[li][uni(t, fmt.Sprintf("vpos%d", v), 0, len(c.Call.DAG[li])-1)]
						c.Gates[n] = obs.Hold
					}
				}
			}
			for _, r := range c.Rules {
				if _, ok := c.Gates[r.Name]; !ok && pct(t, "yield_"+r.Name, 30) {
					c.Gates[r.Name] = obs.Yield
				}
			}
			genPrior(t, c)
			return c
		},
		Check: func(ci interface{}, x *Ctx) {
			c := ci.(*SchedCase)
			if c.Pool {
				x.Class("pool")
			}
			x.Class(fmt.Sprintf("layers:%d", len(c.Call.DAG)))
			for _, l := range c.Call.DAG {
				if len(l) > 30 {
					x.Class("very-wide-layer")
				}
			}
			have := map[string]bool{}
			fails := map[string]bool{}
			for _, r := range c.Rules {
				have[r.Name] = true
				fails[r.Name] = r.Fails
			}
			nonEmpty := 0
			failNonFinal := false
			lastNonEmpty := -1
			for i, l := range c.Call.DAG {
				for _, n := range l {
					if have[n] {
						lastNonEmpty = i
						break
					}
				}
			}
			for i, l := range c.Call.DAG {
				ne := false
				seen := map[string]bool{}
				for _, n := range l {
					if !have[n] {
						x.Class("unknown-name")
						continue
					}
					ne = true
					if seen[n] {
						x.Class("repeated-in-layer")
					}
					seen[n] = true
					if fails[n] && i < lastNonEmpty {
						failNonFinal = true
					}
				}
				if ne {
					nonEmpty++
				} else {
					x.Class("empty-layer")
				}
			}
			in, ok := checkSched(x, c)
			if !ok {
				return
			}
			if nonEmpty >= 2 && parkedBeforeSuccessor(in) {
				x.Class("parked-then-successor")
				x.NonTrivial()
			}
			if failNonFinal {
				x.Class("failure-in-non-final-layer")
				x.NonTrivial()
			}
		},
	})
}

func TestC13(t *testing.T) { runProp(t, "C13") }
