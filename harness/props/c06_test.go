package props

import (
	"fmt"
	"sync"
	"sync/atomic"
	"testing"
	"time"

	"github.com/bilibili/gengine/engine"
	"pgregory.net/rapid"

	"verif/gx"
	"verif/obs"
)

// C06 - pool requests are isolated from each other.
type C06Op struct {
	Kind   string   `json:"kind"` // start | release
	Keys   []string `json:"keys,omitempty"`
	Method int      `json:"method,omitempty"`
	K      int      `json:"k,omitempty"`
	Silent bool     `json:"silent,omitempty"` // the request's rules return nothing (empty result map)
	StopOnErr bool  `json:"stop_on_err,omitempty"` // pass b=false to methods that take the policy flag
	// Degenerate (N-M and DAG methods only): 1 = N is 0, 2 = N+M exceeds the rule set, 3 = an
	// empty DAG / a name list that does not match N+M. Such a call runs nothing; its result
	// map must be empty, whatever the instance served before.
	Degenerate int `json:"degenerate,omitempty"`
}

type C06Case struct {
	PoolMin int64   `json:"pool_min"`
	PoolMax int64   `json:"pool_max"`
	EM      int     `json:"em"`
	Ops     []C06Op `json:"ops"`
	// Stress: ungated variant - Clients goroutines issue Reqs requests each (gates yield only)
	Stress  bool `json:"stress,omitempty"`
	Clients int  `json:"clients,omitempty"`
	Reqs    int  `json:"reqs,omitempty"`
	Salt    int  `json:"salt,omitempty"`
}

var c06Keys = []string{"ka", "kb", "kc"}

func c06Rules() string {
	s := "rule \"r_who\" \"d\" salience 10\nbegin\n  S(@name)\n  lit(1, 2, 3)\n  same(bv.Get(), who.Id)\n  same(nv.V(), who.Id)\n  ix = 0\n  zs = who.Sl[ix]\n  same(zs, who.Id)\n  if who.Kind == 0 {\n    return who.Id\n  }\nend\n"
	for i, k := range c06Keys {
		s += fmt.Sprintf("rule \"r_%s\" \"d\" salience %d\nbegin\n  same(%s.Id, who.Id)\n  gatei(who.Id)\n  same(%s.Id, who.Id)\n  %s.Out = who.Id\n  if who.Kind == 0 {\n    return %s.Id\n  }\nend\n", k, 5-i, k, k, k, k)
	}
	// kapi is also the name of an object the pool was constructed with (Id -7): a request may
	// inject its own object under that name; a request that does not must see the pool's
	// object or nothing, never the object of an earlier request
	s += "rule \"r_kapi\" \"d\" salience 1\nbegin\n  if who.Kind == 0 {\n    return kapi.Id\n  }\nend\n"
	return s
}

const c06ApiID = int64(-7)

func c06Apis(h *poolHarness) map[string]interface{} {
	m := h.apis()
	m["kapi"] = &Payload{Id: c06ApiID}
	return m
}

// c06CheckApiKey judges the result of the rule over the api-named key.
func c06CheckApiKey(res map[string]interface{}, injected bool, id int64) string {
	v, has := res["r_kapi"]
	if !has {
		return ""
	}
	if injected && fmt.Sprint(v) != fmt.Sprint(id) {
		return fmt.Sprintf("injected its own object under the api name kapi but the rule over it returned %v", v)
	}
	if !injected && fmt.Sprint(v) != fmt.Sprint(c06ApiID) {
		return fmt.Sprintf("did not inject kapi, but the rule over it returned %v instead of the pool's own object (%d): data injected by another request under the name of a pool api is visible", v, c06ApiID)
	}
	return ""
}

var c06Methods = []string{"Execute", "ExecuteConcurrent", "ExecuteMixModel", "ExecuteInverseMixModel", "ExecuteRulesWithMultiInputWithSpecifiedEM",
	"ExecuteSelectedRules", "ExecuteSelectedRulesConcurrent", "ExecuteSelectedRulesMixModel", "ExecuteSelectedWithSpecifiedEM", "ExecuteDAGModel",
	"ExecuteNSortMConcurrent", "ExecuteNConcurrentMSort", "ExecuteNConcurrentMConcurrent", "ExecuteSelectedNConcurrentMConcurrent",
	"ExecuteWithStopTagDirect", "ExecuteSelectedRulesWithControl", "ExecuteSelectedRulesWithControlAsGivenSortedName"}

func init() {
	register(&Prop{
		ID:   "C06",
		Rule: "request histories on pools of size (1,2),(1,3),(2,3),(2,4),(3,6): start request (unique id, a struct and a named integer injected by value whose value-receiver methods hand out the id, payload objects injected under a non-empty subset of three key names plus an identity object, optionally also under the name kapi of an object the pool itself was constructed with, one of 17 pool execute methods) and release the k-th parked request; every request parks mid-rule on a Hold gate keyed by its id, so several requests overlap while rules are mid-execution; rule set: per key name a rule that compares <key>.Id with the request's identity before and after the gate, writes <key>.Out and returns <key>.Id; oracle per finished request: every rule over an injected key saw and returned the request's own id before and after the gate, every rule over a key the request did not inject failed (an entry there is data leaked from an overlapping or earlier request), a request that did not inject kapi sees the pool's own object or nothing, every payload's Out is 0 or the own id, and the result map copied at return equals the same map at the end of the history. Non-trivial: >= 2 requests were parked mid-rule simultaneously and the history has more requests than instances with different key sets; distinct by case hash",
		New:  func() interface{} { return &C06Case{} },
		Gen: func(t *rapid.T) interface{} {
			c := &C06Case{}
			sizes := [][2]int64{{1, 2}, {1, 3}, {2, 3}, {2, 4}, {3, 6}}
			s := sizes[uni(t, "pool_size", 0, len(sizes)-1)]
			c.PoolMin, c.PoolMax = s[0], s[1]
			c.EM = uni(t, "em", 1, 4)
			if pct(t, "stress", 12) {
				c.Stress = true
				c.Clients = uni(t, "clients", 3, 12)
				c.Reqs = uni(t, "reqs", 5, 25)
				if thorough() {
					c.Clients = uni(t, "clients_t", 8, 32)
					c.Reqs = uni(t, "reqs_t", 20, 120)
				}
				c.Salt = uni(t, "salt", 0, 1000)
				return c
			}
			n := uni(t, "nops", 3, 30)
			out := 0
			for i := 0; i < n; i++ {
				if out > 0 && (out >= int(c.PoolMax)+1 || pct(t, fmt.Sprintf("rel%d", i), 38)) {
					c.Ops = append(c.Ops, C06Op{Kind: "release", K: uni(t, fmt.Sprintf("k%d", i), 0, out-1)})
					out--
					continue
				}
				var keys []string
				for _, k := range c06Keys {
					if pct(t, fmt.Sprintf("key%d_%s", i, k), 50) {
						keys = append(keys, k)
					}
				}
				if len(keys) == 0 {
					keys = []string{c06Keys[uni(t, fmt.Sprintf("onekey%d", i), 0, 2)]}
				}
				if pct(t, fmt.Sprintf("key%d_kapi", i), 30) {
					keys = append(keys, "kapi")
				}
				op := C06Op{Kind: "start", Keys: keys, Method: uni(t, fmt.Sprintf("m%d", i), 0, len(c06Methods)-1), Silent: pct(t, fmt.Sprintf("silent%d", i), 25), StopOnErr: pct(t, fmt.Sprintf("stoponerr%d", i), 30)}
				if m, _ := gx.Lookup(c06Methods[op.Method]); (m.NM || m.Shape == gx.ShDAG) && pct(t, fmt.Sprintf("degenerate%d", i), 35) {
					op.Degenerate = uni(t, fmt.Sprintf("degkind%d", i), 1, 3)
					c.Ops = append(c.Ops, op)
					continue // it runs nothing and never parks
				}
				c.Ops = append(c.Ops, op)
				out++
			}
			return c
		},
		Check: func(ci interface{}, x *Ctx) {
			c := ci.(*C06Case)
			h := newPoolHarness()
			h.byValue = true
			h.max = int(c.PoolMax)
			p, err := engine.NewGenginePool(c.PoolMin, c.PoolMax, c.EM, c06Rules(), c06Apis(h))
			if err != nil {
				x.Violation("setup", "NewGenginePool: %v", err)
				return
			}
			h.pool = p
			defer h.gates.ReleaseAll()
			names := []string{"r_who", "r_ka", "r_kb", "r_kc", "r_kapi"}
			if c.Stress {
				x.Class("stress-variant")
				x.NonTrivial()
				c06Stress(x, c, h, names)
				return
			}
			nextID := int64(1000)
			degenerateIDs := map[int64]bool{}
			maxParked := 0
			keySets := map[string]bool{}
			checkReq := func(r *poolReq, step int) bool {
				if h.gates.Parked(fmt.Sprint(r.id)) {
					x.Violation("straggler", "step %d: request %d (%s) returned (and its instance went back to the pool) while one of its rules was still running", step, r.id, r.call)
					return false
				}
				if degenerateIDs[r.id] {
					if len(r.res.Map) > 0 {
						x.Violation("foreign-result:degenerate", "step %d: request %d (%s) has parameters with which nothing runs, but it was handed the result map %v (the map of the request its instance served before)", step, r.id, r.call, sortedMap(r.res.Map))
						return false
					}
					if r.res.Panic != "" {
						x.Violation("request-panic", "step %d: request %d (%s) panicked: %s", step, r.id, r.call, truncate(r.res.Panic, 200))
						return false
					}
					return true
				}
				if r.kind == 1 && len(r.res.Map) > 0 {
					x.Violation("foreign-result:silent", "step %d: request %d (%s) returns nothing from any rule, but its result map is %v", step, r.id, r.call.Method, sortedMap(r.res.Map))
					return false
				}
				if r.res.Panic != "" {
					x.Violation("request-panic", "step %d: request %d (%s) panicked: %s", step, r.id, r.call.Method, truncate(r.res.Panic, 200))
					return false
				}
				if atomic.LoadInt64(&h.mismatch) > 0 {
					x.Violation("cross-talk", "step %d: a rule saw two different request ids inside one execution (objects of different requests in one data context); events %v", step, h.log.Snapshot())
					return false
				}
				injected := map[string]bool{}
				for _, k := range r.keys {
					injected[k] = true
				}
				m, _ := gx.Lookup(r.call.Method)
				for _, k := range c06Keys {
					v, has := r.res.Map["r_"+k]
					if !injected[k] {
						if has {
							x.Violation("leak:"+m.Shape, "step %d: request %d (%s, keys %v) did not inject %q, but the rule over it returned %v: data of another request was visible", step, r.id, r.call.Method, r.keys, k, v)
							return false
						}
						continue
					}
					if has && fmt.Sprint(v) != fmt.Sprint(r.id) {
						x.Violation("foreign-result:"+m.Shape, "step %d: request %d (%s) got %v for its own key %q", step, r.id, r.call.Method, v, k)
						return false
					}
				}
				if v, has := r.res.Map["r_who"]; has && fmt.Sprint(v) != fmt.Sprint(r.id) {
					x.Violation("foreign-result:"+m.Shape, "step %d: request %d (%s) got identity %v", step, r.id, r.call.Method, v)
					return false
				}
				if injected["kapi"] {
					x.Class("request-injects-under-the-name-of-a-pool-api")
				}
				if msg := c06CheckApiKey(r.res.Map, injected["kapi"], r.id); msg != "" {
					x.Violation("leak:api-name", "step %d: request %d (%s, keys %v) %s", step, r.id, r.call.Method, r.keys, msg)
					return false
				}
				for k, pl := range r.payloads {
					if pl.Out != 0 && pl.Out != r.id {
						x.Violation("foreign-write", "step %d: payload %q of request %d was written by a rule running for request %d", step, k, r.id, pl.Out)
						return false
					}
				}
				return true
			}
			for step, op := range c.Ops {
				switch op.Kind {
				case "start":
					nextID++
					call := fullCall(c06Methods[op.Method%len(c06Methods)], names, step)
					if op.StopOnErr {
						call.B = false
					}
					degenerate := false
					if m, _ := gx.Lookup(call.Method); op.Degenerate > 0 {
						switch {
						case m.Shape == gx.ShDAG:
							call.DAG = [][]string{}
							degenerate = true
						case m.NM && op.Degenerate == 1:
							call.N, call.M = 0, len(names)
							degenerate = true
						case m.NM && op.Degenerate == 2:
							call.N, call.M = len(names), 2
							degenerate = true
						case m.NM && m.Selected:
							call.Names = call.Names[:len(call.Names)-1]
							degenerate = true
						case m.NM:
							call.N, call.M = -1, len(names)+1
							degenerate = true
						}
					}
					if degenerate {
						x.Class("request-with-degenerate-parameters")
						degenerateIDs[nextID] = true
					}
					keys := append([]string{"who"}, op.Keys...)
					kind := int64(0)
					if op.Silent {
						kind = 1
						x.Class("request-with-empty-result")
					}
					h.start(nextID, kind, keys, call)
					keySets[fmt.Sprint(op.Keys)] = true
					x.Class("method:" + call.Method)
				case "release":
					r := h.releaseParked(x, op.K)
					if r == nil {
						continue
					}
					if !checkReq(r, step) {
						return
					}
				}
				h.settle(x, fmt.Sprintf("step %d (%s)", step, op.Kind))
				if n := h.parkedCount(); n > maxParked {
					maxParked = n
				}
				for _, r := range h.takeReaped() {
					x.Class("request-finished-without-parking")
					if !checkReq(r, step) {
						return
					}
				}
			}
			for len(h.out) > 0 {
				r := h.releaseParked(x, 0)
				if r == nil {
					h.settle(x, "draining")
					continue
				}
				if !checkReq(r, len(c.Ops)) {
					return
				}
				h.settle(x, "draining")
			}
			for _, r := range h.takeReaped() {
				if !checkReq(r, len(c.Ops)) {
					return
				}
			}
			// a final sequential sweep: requests that inject nothing but their identity land on
			// instances that served the requests above; nothing of those may be visible
			for i := 0; i < h.max+1; i++ {
				nextID++
				r := h.start(nextID, 0, []string{"who"}, fullCall("Execute", names, 0))
				h.settle(x, "final sweep")
				if h.gates.Parked(fmt.Sprint(r.id)) {
					h.gates.ReleaseAll()
					x.Violation("leak:sweep", "request %d injected nothing but its identity, yet a rule over a payload key ran far enough to park: data injected by an earlier request is still visible on its instance", r.id)
					return
				}
				for _, rr := range h.takeReaped() {
					if !checkReq(rr, -1) {
						return
					}
				}
			}
			// result maps are never modified after they were handed back
			for _, r := range h.all {
				if r.resCopy != nil && fmt.Sprint(sortedMap(r.res.Map)) != fmt.Sprint(r.resCopy) {
					x.Violation("result-modified-later", "the result map handed to request %d (%s) changed after the call returned: %v -> %v", r.id, r.call.Method, r.resCopy, sortedMap(r.res.Map))
					return
				}
			}
			if maxParked >= 2 {
				x.Class(">=2-requests-parked-mid-rule")
			}
			if maxParked >= 2 && len(h.all) > h.max+h.max+1 && len(keySets) >= 2 {
				x.NonTrivial()
			}
		},
	})
}

// c06Stress: many client goroutines, no parking (every gate only yields); each request
// checks its own result map and payloads against its own id.
func c06Stress(x *Ctx, c *C06Case, h *poolHarness, names []string) {
	type outcome struct{ msg string }
	errs := make(chan outcome, c.Clients*c.Reqs)
	done := make(chan struct{})
	var wg sync.WaitGroup
	for cl := 0; cl < c.Clients; cl++ {
		wg.Add(1)
		go func(cl int) {
			defer wg.Done()
			for k := 0; k < c.Reqs; k++ {
				id := int64(100000 + cl*1000 + k)
				h.gates.Set(fmt.Sprint(id), obs.Yield, (cl+k+c.Salt)%4)
				mix := cl*31 + k*7 + c.Salt
				var keys []string
				for i, key := range c06Keys {
					if (mix>>uint(i))&1 == 1 {
						keys = append(keys, key)
					}
				}
				if len(keys) == 0 {
					keys = []string{c06Keys[mix%3]}
				}
				if (mix>>3)&3 == 1 {
					keys = append(keys, "kapi")
				}
				data := map[string]interface{}{"who": &Payload{Id: id, Sl: []int64{id}}, "bv": ByVal{Id: id}, "nv": NamedInt(id)}
				pls := map[string]*Payload{}
				for _, key := range keys {
					pls[key] = &Payload{Id: id}
					data[key] = pls[key]
				}
				call := fullCall(c06Methods[mix%len(c06Methods)], names, mix)
				res := gx.OnPool(h.pool, call, data, &engine.Stag{})
				if res.Panic != "" {
					errs <- outcome{fmt.Sprintf("request %d (%s) panicked: %s", id, call.Method, truncate(res.Panic, 200))}
					return
				}
				inj := map[string]bool{}
				for _, key := range keys {
					inj[key] = true
				}
				for _, key := range c06Keys {
					v, has := res.Map["r_"+key]
					if !inj[key] && has {
						errs <- outcome{fmt.Sprintf("request %d (%s, keys %v) did not inject %q but its rule returned %v (leak)", id, call.Method, keys, key, v)}
						return
					}
					if inj[key] && has && fmt.Sprint(v) != fmt.Sprint(id) {
						errs <- outcome{fmt.Sprintf("request %d (%s) got %v for its own key %q", id, call.Method, v, key)}
						return
					}
				}
				if v, has := res.Map["r_who"]; has && fmt.Sprint(v) != fmt.Sprint(id) {
					errs <- outcome{fmt.Sprintf("request %d (%s) got identity %v", id, call.Method, v)}
					return
				}
				if msg := c06CheckApiKey(res.Map, inj["kapi"], id); msg != "" {
					errs <- outcome{fmt.Sprintf("request %d (%s, keys %v) %s", id, call.Method, keys, msg)}
					return
				}
				for key, pl := range pls {
					if pl.Out != 0 && pl.Out != id {
						errs <- outcome{fmt.Sprintf("payload %q of request %d was written by request %d", key, id, pl.Out)}
						return
					}
				}
			}
		}(cl)
	}
	go func() { wg.Wait(); close(done) }()
	select {
	case <-done:
	case <-time.After(3 * hangBound()):
		hangExit(x, currentCaseJSON, "stress variant: requests did not finish")
	}
	close(errs)
	for e := range errs {
		x.Violation("stress-cross-talk", "%s", e.msg)
		return
	}
	if atomic.LoadInt64(&h.mismatch) > 0 {
		x.Violation("cross-talk", "stress variant: a rule saw two different request ids inside one execution; events %v", h.log.Snapshot())
	}
}

func TestC06(t *testing.T) { runProp(t, "C06") }
