package props

import (
	"fmt"
	"strings"
	"sync"
	"sync/atomic"
	"testing"
	"time"

	"github.com/bilibili/gengine/builder"
	"github.com/bilibili/gengine/context"
	"github.com/bilibili/gengine/engine"
	"pgregory.net/rapid"

	"verif/gx"
	"verif/obs"
)

// C18 - conc blocks join before the next statement and lose no effect or error.
type C18Child struct {
	Kind  string `json:"kind"` // local | field | func | method | three
	ID    int64  `json:"id"`
	Fails string `json:"fails,omitempty"` // "" | panic | type
	Gate  int    `json:"gate,omitempty"`
}

type C18Case struct {
	Blocks  [][]C18Child `json:"blocks"`
	QuiesMs int          `json:"quies_ms"`
	Pool    bool         `json:"pool,omitempty"`
	// Engines > 1: that many Gengine objects execute the freshly built RuleBuilder at the same
	// moment (released by a barrier); no child fails and no gate is used in this mode.
	Engines int `json:"engines,omitempty"`
	// OneLine: the children of every conc block are written on one source line
	OneLine bool `json:"one_line,omitempty"`
}

type c18Host struct{ F0, F1, F2, F3, F4, F5, F6, F7 int64 }

// c18Nest holds one nested struct by value and one through a pointer: children of a block
// assign distinct fields of the same nested struct (three-level targets).
type c18Nest struct {
	V c18Host
	P *c18Host
}

type c18Obj struct {
	act func(id int64) int64
	In  *c18Obj
}

func (o *c18Obj) Act(id int64) int64 { return o.act(id) }

func (c *C18Case) text() string {
	var b strings.Builder
	b.WriteString("rule \"conc\" \"d\" salience 1\nbegin\n  S(@name)\n  lo = mkobj()\n  pre = 5\n  pre0 = 0\n")
	for bi, blk := range c.Blocks {
		b.WriteString("  conc {\n")
		for _, ch := range blk {
			call := fmt.Sprintf("val(%d)", ch.ID)
			switch ch.Fails {
			case "panic":
				call = fmt.Sprintf("bad(%d)", ch.ID)
			case "type":
				call = fmt.Sprintf("val(%d) + \"s\"", ch.ID)
			}
			switch ch.Kind {
			case "local":
				fmt.Fprintf(&b, "    a%d = %s\n", ch.ID, call)
			case "local-expr": // the right-hand side also reads a local assigned before the block
				fmt.Fprintf(&b, "    a%d = %s + pre0\n", ch.ID, call)
			case "field":
				fmt.Fprintf(&b, "    H.F%d = %s\n", ch.ID%8, call)
			case "nested": // distinct fields of a nested struct held by value; the children meet at a barrier just before they store
				if ch.Fails != "" {
					fmt.Fprintf(&b, "    N.V.F%d = %s\n", ch.ID%8, call)
				} else {
					fmt.Fprintf(&b, "    N.V.F%d = valb(%d)\n", ch.ID%8, ch.ID)
				}
			case "nestedp": // the same through a pointer field
				if ch.Fails != "" {
					fmt.Fprintf(&b, "    N.P.F%d = %s\n", ch.ID%8, call)
				} else {
					fmt.Fprintf(&b, "    N.P.F%d = valb(%d)\n", ch.ID%8, ch.ID)
				}
			case "func":
				if ch.Fails == "type" {
					fmt.Fprintf(&b, "    val(%d, \"extra\")\n", ch.ID)
				} else {
					fmt.Fprintf(&b, "    %s\n", call)
				}
			case "method":
				if ch.Fails != "" {
					fmt.Fprintf(&b, "    O.Bad(%d)\n", ch.ID)
				} else {
					fmt.Fprintf(&b, "    O.Act(%d)\n", ch.ID)
				}
			case "three":
				if ch.Fails != "" {
					fmt.Fprintf(&b, "    O.In.Bad(%d)\n", ch.ID)
				} else {
					fmt.Fprintf(&b, "    O.In.Act(%d)\n", ch.ID)
				}
			case "method-local": // receiver is a rule local assigned before the block
				if ch.Fails != "" {
					fmt.Fprintf(&b, "    lo.Bad(%d)\n", ch.ID)
				} else {
					fmt.Fprintf(&b, "    lo.Act(%d)\n", ch.ID)
				}
			case "three-local":
				if ch.Fails != "" {
					fmt.Fprintf(&b, "    lo.In.Bad(%d)\n", ch.ID)
				} else {
					fmt.Fprintf(&b, "    lo.In.Act(%d)\n", ch.ID)
				}
			case "lit": // right-hand side is a bare literal
				if ch.Fails != "" {
					fmt.Fprintf(&b, "    plainint = %d\n", ch.ID)
				} else {
					fmt.Fprintf(&b, "    a%d = %d\n", ch.ID, ch.ID*10)
				}
			case "func-local-arg": // argument is a rule local assigned before the block
				if ch.Fails != "" {
					fmt.Fprintf(&b, "    bad(%d)\n", ch.ID)
				} else {
					fmt.Fprintf(&b, "    act2(%d, pre)\n", ch.ID)
				}
			}
		}
		b.WriteString("  }\n")
		fmt.Fprintf(&b, "  after(%d)\n", bi)
		for _, ch := range blk {
			if ch.Fails != "" {
				continue
			}
			switch ch.Kind {
			case "local", "lit", "local-expr":
				fmt.Fprintf(&b, "  rd(%d, a%d)\n", ch.ID, ch.ID)
			case "field":
				fmt.Fprintf(&b, "  rd(%d, H.F%d)\n", ch.ID, ch.ID%8)
			case "nested":
				fmt.Fprintf(&b, "  rd(%d, N.V.F%d)\n", ch.ID, ch.ID%8)
			case "nestedp":
				fmt.Fprintf(&b, "  rd(%d, N.P.F%d)\n", ch.ID, ch.ID%8)
			}
		}
	}
	b.WriteString("  E(@name)\n  return 1\nend\n")
	text := b.String()
	if c.OneLine {
		// "  conc {\n    a\n    b\n  }\n"  ->  "  conc { a b }\n"
		var out strings.Builder
		in := false
		for _, ln := range strings.SplitAfter(text, "\n") {
			switch {
			case strings.HasPrefix(ln, "  conc {"):
				in = true
				out.WriteString("  conc {")
			case in && strings.HasPrefix(ln, "  }"):
				in = false
				out.WriteString(" }\n")
			case in:
				out.WriteString(" " + strings.TrimSpace(ln))
			default:
				out.WriteString(ln)
			}
		}
		text = out.String()
	}
	return text
}

func (o *c18Obj) Bad(id int64) int64 { o.act(-id); panic("injected method failure") }

func init() {
	register(&Prop{
		ID:   "C18",
		Rule: "one rule with 1-3 conc blocks of 0-6 children of all four kinds (assignments to distinct locals, to distinct fields of an injected struct and to distinct fields of one nested struct (held by value or through a pointer; such children meet at a bounded rendezvous so that their stores overlap) whose right-hand side is an observable call, function, method and three-level calls, each with a unique id), a generated failing subset (panicking function/method, type fault, wrong arity), after each block an observer call and reads of every local and field assigned inside; children parked on Hold gates until the event log is quiet, others yielding; oracle: each child ran exactly once, every child's finish event precedes the block's after-event, values read after the block are the children's values, with a failing child the rule fails, every other child of that block has finished when Execute returns and nothing after the block runs. In 15% of the failure-free engine cases 2-8 Gengine objects execute the freshly built RuleBuilder at the same moment (every child once per execution, every read after a block correct). Non-trivial: a block with >= 3 children of >= 2 kinds and a parked child, or a failing child next to a parked sibling; distinct by case hash",
		New:  func() interface{} { return &C18Case{} },
		Gen: func(t *rapid.T) interface{} {
			c := &C18Case{QuiesMs: quiesMs(), Pool: pct(t, "pool", 25)}
			nb := uni(t, "nblocks", 1, 3)
			id := int64(0)
			usedField := map[int64]bool{}
			usedNested := map[string]bool{}
			failBlock := -1
			if pct(t, "has_failure", 35) {
				failBlock = uni(t, "failblock", 0, nb-1)
			}
			for bi := 0; bi < nb; bi++ {
				n := uni(t, fmt.Sprintf("nkids%d", bi), 0, 6)
				if n < 3 && pct(t, fmt.Sprintf("morekids%d", bi), 70) {
					n = uni(t, fmt.Sprintf("nkids2_%d", bi), 3, 6)
				}
				var blk []C18Child
				nestedBlock := pct(t, fmt.Sprintf("nestedblock%d", bi), 20)
				if nestedBlock && n < 3 {
					n = uni(t, fmt.Sprintf("nkids3_%d", bi), 3, 6)
				}
				for k := 0; k < n; k++ {
					id++
					kind := []string{"local", "local", "field", "func", "method", "three", "method-local", "three-local", "func-local-arg", "lit", "lit", "nested", "nestedp", "local-expr", "local-expr"}[uni(t, fmt.Sprintf("kind%d_%d", bi, k), 0, 14)]
					if pct(t, fmt.Sprintf("alllit%d", bi), 8) {
						kind = "lit" // blocks made of literal assignments only
					}
					if nestedBlock {
						// all children store into the same nested struct
						kind = []string{"nested", "nested", "nested", "nestedp"}[uni(t, fmt.Sprintf("nkind%d_%d", bi, k), 0, 3)]
					}
					if kind == "nested" || kind == "nestedp" {
						key := fmt.Sprintf("%s%d", kind, id%8)
						if usedNested[key] {
							kind = "local"
						}
						usedNested[key] = true
					}
					if kind == "field" {
						if usedField[id%8] {
							kind = "local"
						}
						usedField[id%8] = true
					}
					ch := C18Child{Kind: kind, ID: id}
					switch {
					case kind == "nested" || kind == "nestedp":
						// these meet at a barrier instead of a gate
					case pct(t, fmt.Sprintf("hold%d_%d", bi, k), 30):
						ch.Gate = obs.Hold
					case pct(t, fmt.Sprintf("yield%d_%d", bi, k), 40):
						ch.Gate = obs.Yield
					}
					blk = append(blk, ch)
				}
				if bi == failBlock && len(blk) > 0 {
					nf := 1
					if pct(t, "two_failures", 20) {
						nf = 2
					}
					for f := 0; f < nf; f++ {
						i := uni(t, fmt.Sprintf("failidx%d", f), 0, len(blk)-1)
						blk[i].Fails = []string{"panic", "type"}[uni(t, fmt.Sprintf("failkind%d", f), 0, 1)]
						blk[i].Gate = obs.Free
					}
				}
				c.Blocks = append(c.Blocks, blk)
			}
			c.OneLine = pct(t, "one_line", 20)
			if failBlock < 0 && !c.Pool && pct(t, "multi_engine", 15) {
				c.Engines = uni(t, "engines", 2, 8)
			}
			return c
		},
		Check: checkC18,
	})
}

func checkC18(ci interface{}, x *Ctx) {
	c := ci.(*C18Case)
	env := newSchedEnv()
	apis := env.apis()
	act := func(id int64) int64 {
		if id < 0 { // failing method: record only
			env.log.Add("B", fmt.Sprint(-id), 0)
			return 0
		}
		env.log.Add("V", fmt.Sprint(id), 0)
		env.gates.Enter(fmt.Sprint(id))
		env.log.Add("D", fmt.Sprint(id), 0)
		return id * 10
	}
	apis["val"] = act
	// valb: the nested-field children of one block wait for each other (bounded) and then
	// return together, so that their stores into the same nested struct overlap
	blockOf, expect := map[int64]int{}, map[int]int64{}
	for bi, blk := range c.Blocks {
		for _, ch := range blk {
			if (ch.Kind == "nested" || ch.Kind == "nestedp") && ch.Fails == "" {
				blockOf[ch.ID] = bi
				expect[bi]++
			}
		}
	}
	arrivedAt := make([]int64, len(c.Blocks))
	apis["valb"] = func(id int64) int64 {
		env.log.Add("V", fmt.Sprint(id), 0)
		b := blockOf[id]
		atomic.AddInt64(&arrivedAt[b], 1)
		for start := time.Now(); atomic.LoadInt64(&arrivedAt[b]) < expect[b] && time.Since(start) < 2*time.Millisecond; {
		}
		env.log.Add("D", fmt.Sprint(id), 0)
		return id * 10
	}
	nest := &c18Nest{P: &c18Host{}}
	apis["N"] = nest
	apis["bad"] = func(id int64) int64 { env.log.Add("B", fmt.Sprint(id), 0); panic("injected failure") }
	apis["after"] = func(b int64) { env.log.Add("AFTER", fmt.Sprint(b), 0) }
	apis["rd"] = func(id, v int64) { env.log.Add("RD", fmt.Sprint(id), v) }
	host := &c18Host{}
	obj := &c18Obj{act: act, In: &c18Obj{act: act}}
	apis["H"] = host
	apis["O"] = obj
	lobj := &c18Obj{act: act, In: &c18Obj{act: act}}
	apis["plainint"] = int64(1) // plain-injected scalar: not assignable
	apis["mkobj"] = func() *c18Obj { return lobj }
	apis["act2"] = func(id, x int64) int64 { return act(id) }
	text := c.text()
	tg := &schedTarget{env: env}
	if c.Pool {
		p, err := engine.NewGenginePool(1, 2, 1, text, apis)
		if err != nil {
			x.Violation("compile", "generated text rejected: %v\n%s", err, text)
			return
		}
		tg.pool = p
	} else {
		dc := context.NewDataContext()
		for k, v := range apis {
			dc.Add(k, v)
		}
		rb := builder.NewRuleBuilder(dc)
		if err := rb.BuildRuleFromString(text); err != nil {
			x.Violation("compile", "generated text rejected: %v\n%s", err, text)
			return
		}
		tg.rb, tg.g = rb, engine.NewGengine()
	}
	gates := map[string]int{}
	for _, blk := range c.Blocks {
		for _, ch := range blk {
			if ch.Gate != obs.Free {
				gates[fmt.Sprint(ch.ID)] = ch.Gate
			}
		}
	}
	if c.Engines > 1 && tg.rb != nil {
		checkC18MultiEngine(c, x, env, tg, text)
		return
	}
	res := runWithSchedule(x, tg, gx.Call{Method: "Execute", B: true}, gates, time.Duration(c.QuiesMs)*time.Millisecond)
	trace := env.log.Snapshot()
	fail := func(sig, f string, a ...interface{}) {
		x.Violation(sig, f+"\nrule:\n%s\ntrace %v", append(a, text, trace)...)
	}
	if res.Panic != "" {
		fail("panic", "Execute panicked: %s", truncate(res.Panic, 200))
		return
	}
	seqOf := map[string][]int{}
	for _, e := range trace {
		k := e.Kind + ":" + e.Name
		seqOf[k] = append(seqOf[k], e.Seq)
	}
	firstFailBlock := -1
	for bi, blk := range c.Blocks {
		for _, ch := range blk {
			if ch.Fails != "" && firstFailBlock < 0 {
				firstFailBlock = bi
			}
		}
	}
	parkedSomewhere := false
	for bi, blk := range c.Blocks {
		reached := firstFailBlock < 0 || bi <= firstFailBlock
		kinds := map[string]bool{}
		parked := false
		failing := false
		for _, ch := range blk {
			kinds[ch.Kind] = true
			if ch.Gate == obs.Hold && ch.Fails == "" {
				parked = true
			}
			if ch.Fails != "" {
				failing = true
			}
		}
		if reached && parked {
			parkedSomewhere = true
			if len(blk) >= 3 && len(kinds) >= 2 {
				x.Class("block>=3-children>=2-kinds-with-parked-child")
				x.NonTrivial()
			}
			if failing {
				x.Class("failing-child-next-to-parked-sibling")
				x.NonTrivial()
			}
		}
		after := seqOf["AFTER:"+fmt.Sprint(bi)]
		for _, ch := range blk {
			id := fmt.Sprint(ch.ID)
			ran := len(seqOf["V:"+id]) + len(seqOf["B:"+id])
			if (ch.Kind == "func" && ch.Fails == "type") || ch.Kind == "lit" {
				// wrong arity: the call fails before the function body runs; literal
				// assignments call nothing
				ran = -1
			}
			if !reached {
				if ran > 0 {
					fail("ran-after-failed-block", "child %s of block %d ran although block %d failed", id, bi, firstFailBlock)
					return
				}
				continue
			}
			if ran >= 0 && ran != 1 {
				fail("child-count:"+ch.Kind, "child %s (%s) of block %d ran %d times, want exactly once", id, ch.Kind, bi, ran)
				return
			}
			if ch.Kind != "lit" && (ch.Fails == "" || (ch.Fails == "type" && (ch.Kind == "local" || ch.Kind == "local-expr" || ch.Kind == "field" || ch.Kind == "nested" || ch.Kind == "nestedp"))) {
				d := seqOf["D:"+id]
				if len(d) != 1 {
					fail("child-unfinished:"+ch.Kind, "child %s (%s) of block %d had not finished when Execute returned (the block must wait for all of its statements)", id, ch.Kind, bi)
					return
				}
				if len(after) > 0 && after[0] < d[0] {
					fail("no-join:"+ch.Kind, "the statement after block %d started (seq %d) before child %s (%s) finished (seq %d)", bi, after[0], id, ch.Kind, d[0])
					return
				}
			}
		}
		switch {
		case !reached:
			if len(after) > 0 {
				fail("after-failed-block", "block %d ran after block %d failed", bi, firstFailBlock)
				return
			}
		case bi == firstFailBlock:
			if len(after) > 0 {
				fail("continued-after-failure", "a child of block %d failed but the statement after the block ran", bi)
				return
			}
		default:
			if len(after) != 1 {
				fail("after-missing", "statement after block %d ran %d times", bi, len(after))
				return
			}
			for _, ch := range blk {
				if ch.Kind != "local" && ch.Kind != "local-expr" && ch.Kind != "field" && ch.Kind != "lit" && ch.Kind != "nested" && ch.Kind != "nestedp" {
					continue
				}
				if ch.Kind == "nested" && expect[bi] >= 2 {
					x.Class("block-with->=2-stores-into-one-nested-struct-held-by-value")
				}
				rd := -1
				for _, e := range trace {
					if e.Kind == "RD" && e.Name == fmt.Sprint(ch.ID) {
						rd = int(e.Arg)
					}
				}
				if int64(rd) != ch.ID*10 {
					fail("lost-assignment:"+ch.Kind, "after block %d the %s assigned by child %d reads %d, want %d", bi, ch.Kind, ch.ID, rd, ch.ID*10)
					return
				}
			}
		}
	}
	if firstFailBlock >= 0 {
		x.Class("has-failing-child")
		if res.Err == nil {
			fail("error-dropped", "a child of block %d failed but Execute returned a nil error", firstFailBlock)
		}
	} else if res.Err != nil {
		fail("spurious-error", "no child failed but Execute returned %s", truncate(res.Err.Error(), 200))
	}
	if parkedSomewhere {
		x.Class("parked-child")
	}
}

// checkC18MultiEngine: N engines execute one freshly built RuleBuilder simultaneously; every
// child of every block must run exactly once per execution and every read after a block must
// see its block's values.
func checkC18MultiEngine(c *C18Case, x *Ctx, env *schedEnv, tg *schedTarget, text string) {
	n := c.Engines
	x.Class("several-engines-execute-one-fresh-builder-at-once")
	x.NonTrivial()
	var ready, goFlag int32
	errs := make([]error, n)
	pans := make([]string, n)
	done := make(chan struct{})
	var wg sync.WaitGroup
	for i := 0; i < n; i++ {
		wg.Add(1)
		go func(i int) {
			defer wg.Done()
			g := engine.NewGengine()
			atomic.AddInt32(&ready, 1)
			for atomic.LoadInt32(&goFlag) == 0 {
			}
			_, pans[i] = guard(func() error { errs[i] = g.Execute(tg.rb, true); return nil })
		}(i)
	}
	for atomic.LoadInt32(&ready) < int32(n) {
		time.Sleep(10 * time.Microsecond)
	}
	atomic.StoreInt32(&goFlag, 1)
	go func() { wg.Wait(); close(done) }()
	select {
	case <-done:
	case <-time.After(hangBound()):
		hangExit(x, currentCaseJSON, fmt.Sprintf("%d engines executing one builder did not return", n))
	}
	trace := env.log.Snapshot()
	fail := func(sig, f string, a ...interface{}) {
		x.Violation(sig, f+"\nrule:\n%s\ntrace %v", append(a, text, trace)...)
	}
	for i := 0; i < n; i++ {
		if pans[i] != "" {
			fail("panic/multi-engine", "engine %d of %d panicked: %s", i, n, truncate(pans[i], 200))
			return
		}
		if errs[i] != nil {
			fail("spurious-error/multi-engine", "no child fails, but engine %d of %d returned %s", i, n, truncate(errs[i].Error(), 300))
			return
		}
	}
	cnt := map[string]int{}
	rdBad := ""
	for _, e := range trace {
		cnt[e.Kind+":"+e.Name]++
		if e.Kind == "RD" {
			var id int64
			fmt.Sscan(e.Name, &id)
			if e.Arg != id*10 && rdBad == "" {
				rdBad = fmt.Sprintf("after its block the value assigned by child %d reads %d, want %d", id, e.Arg, id*10)
			}
		}
	}
	for bi, blk := range c.Blocks {
		if cnt["AFTER:"+fmt.Sprint(bi)] != n {
			fail("after-count/multi-engine", "the statement after block %d ran %d times in %d executions", bi, cnt["AFTER:"+fmt.Sprint(bi)], n)
			return
		}
		for _, ch := range blk {
			id := fmt.Sprint(ch.ID)
			if ch.Kind != "lit" && cnt["V:"+id] != n {
				fail("child-count/multi-engine:"+ch.Kind, "child %s (%s) of block %d ran %d times in %d simultaneous executions of one freshly built rule set, want exactly once per execution", id, ch.Kind, bi, cnt["V:"+id], n)
				return
			}
			switch ch.Kind {
			case "local", "local-expr", "lit", "field", "nested", "nestedp":
				if cnt["RD:"+id] != n {
					fail("read-count/multi-engine", "the read of child %s's value after block %d ran %d times in %d executions", id, bi, cnt["RD:"+id], n)
					return
				}
			}
		}
	}
	if rdBad != "" {
		fail("lost-assignment/multi-engine", "%s", rdBad)
	}
}

func TestC18(t *testing.T) { runProp(t, "C18") }
