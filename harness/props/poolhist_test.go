package props

import (
	"fmt"
	"sync/atomic"
	"time"

	"github.com/bilibili/gengine/engine"

	"verif/gx"
	"verif/obs"
)

// Payload is the per-request object injected into pooled executions.
type Payload struct {
	Id   int64
	Kind int64
	Out  int64
	M    map[string]int64 // per-request containers (never shared between requests)
	NilM map[string]int64
	Sl   []int64
	MU   map[uint8]int64 // an unsigned-keyed map: an integer literal key cannot be converted to its key kind
}

// ByVal and NamedInt are injected by value (not through a pointer): a struct and a named
// scalar, each with a value-receiver method that hands out the request's id.
type ByVal struct{ Id int64 }

func (b ByVal) Get() int64 { return b.Id }

type NamedInt int64

func (n NamedInt) V() int64 { return int64(n) }

// poolReq is one in-flight pool request of a history.
type poolReq struct {
	id       int64
	keys     []string
	call     gx.Call
	kind     int64
	payloads map[string]*Payload
	done     chan struct{}
	res      gx.Result
	resCopy  []string // sorted printed result map, copied when the call returned
	finished bool
}

// poolHarness runs request histories against one pool with gates keyed by request id.
type poolHarness struct {
	pool     *engine.GenginePool
	log      *obs.Log
	gates    *obs.Gates
	max      int
	out      []*poolReq // outstanding, in start order
	all      []*poolReq
	mismatch int64 // same() saw two different ids inside one execution
	reaped   []*poolReq // requests that finished on their own, not yet checked
	// extraData, if set, adds further entries to the data map of a request
	extraData func(id, kind int64) map[string]interface{}
	// byValue: every request also injects a struct and a named integer by value
	byValue bool
}

// parkedCount is the number of outstanding requests with at least one rule parked.
func (h *poolHarness) parkedCount() int { return len(h.parkedIdx()) }

// takeReaped returns (and forgets) the requests that completed without being released.
func (h *poolHarness) takeReaped() []*poolReq {
	r := h.reaped
	h.reaped = nil
	return r
}

func newPoolHarness() *poolHarness {
	l := &obs.Log{}
	return &poolHarness{log: l, gates: obs.NewGates(l)}
}

func (h *poolHarness) apis() map[string]interface{} {
	return map[string]interface{}{
		"gatei": func(id int64) { h.gates.Enter(fmt.Sprint(id)) },
		"same": func(a, b int64) {
			if a != b {
				atomic.AddInt64(&h.mismatch, 1)
				h.log.Add("MISMATCH", fmt.Sprintf("%d!=%d", a, b), 0)
			}
		},
		"boom": func() int64 { panic("injected function panic") },
		// child of the conc block in which C17's requests park: fails for fault kind 10
		"failif": func(k int64) {
			if k == 10 {
				panic("injected conc child failure")
			}
		},
		// called with literal arguments that need a conversion to the parameter kinds
		"lit": func(a int, b float64, c uint8) int64 { return int64(a) },
		"S":    func(n string) { h.log.Add("S", n, 0) },
	}
}

// start launches a request; its gate (keyed by the id) is a Hold gate.
func (h *poolHarness) start(id int64, kind int64, keys []string, call gx.Call) *poolReq {
	r := &poolReq{id: id, keys: keys, call: call, kind: kind, payloads: map[string]*Payload{}, done: make(chan struct{})}
	data := map[string]interface{}{}
	for _, k := range keys {
		p := &Payload{Id: id, Kind: kind, M: map[string]int64{}, Sl: []int64{id, 0}, MU: map[uint8]int64{1: 1}}
		r.payloads[k] = p
		data[k] = p
	}
	if h.byValue {
		data["bv"] = ByVal{Id: id}
		data["nv"] = NamedInt(id)
	}
	if h.extraData != nil {
		for k, v := range h.extraData(id, kind) {
			data[k] = v
		}
	}
	if kind == 12 {
		// entries the pool has to skip: a nil value and an empty key
		data["nilv"] = nil
		data[""] = &Payload{Id: id}
	}
	if kind == 11 {
		// a request without any injected data (nil map): its rules fail on the missing names,
		// the instance must still come back
		data = nil
	}
	h.gates.Set(fmt.Sprint(id), obs.Hold, 0)
	h.out = append(h.out, r)
	h.all = append(h.all, r)
	go func() {
		defer close(r.done)
		r.res = gx.OnPool(h.pool, call, data, &engine.Stag{})
		r.resCopy = sortedMap(r.res.Map)
		// the client recycles its data map as soon as the call has returned
		for k := range data {
			delete(data, k)
		}
	}()
	return r
}

// parkedIdx lists the indices (into out) of the requests currently parked in a rule.
func (h *poolHarness) parkedIdx() []int {
	var idx []int
	for i, r := range h.out {
		if h.gates.Parked(fmt.Sprint(r.id)) {
			idx = append(idx, i)
		}
	}
	return idx
}

// releaseParked releases the k-th (mod count) parked request; nil if none is parked.
func (h *poolHarness) releaseParked(x *Ctx, k int) *poolReq {
	idx := h.parkedIdx()
	if len(idx) == 0 {
		return nil
	}
	return h.release(x, idx[k%len(idx)])
}

// release opens the gate of outstanding request k and waits for it to finish.
func (h *poolHarness) release(x *Ctx, k int) *poolReq {
	r := h.out[k]
	h.out = append(h.out[:k:k], h.out[k+1:]...)
	h.gates.Release(fmt.Sprint(r.id))
	select {
	case <-r.done:
		r.finished = true
	case <-time.After(hangBound()):
		h.gates.ReleaseAll()
		hangExit(x, currentCaseJSON, fmt.Sprintf("request %d did not return after its gate was opened", r.id))
	}
	return r
}

// settle waits until the number of requests parked inside rules equals
// min(max, outstanding): requests beyond the capacity wait, all others must reach their rule.
func (h *poolHarness) settle(x *Ctx, what string) {
	deadline := time.Now().Add(hangBound())
	for {
		// requests that completed without parking (their gated rule was not scheduled)
		live := h.out[:0:0]
		for _, r := range h.out {
			select {
			case <-r.done:
				r.finished = true
				h.reaped = append(h.reaped, r)
			default:
				live = append(live, r)
			}
		}
		h.out = live
		want := len(h.out)
		if want > h.max {
			want = h.max
		}
		if h.parkedCount() >= want {
			break
		}
		if time.Now().After(deadline) {
			n := h.gates.InGate()
			h.gates.ReleaseAll()
			hangExit(x, currentCaseJSON, fmt.Sprintf("%s: %d requests outstanding on a pool of max %d, but only %d reached their rule: a waiter did not proceed or an instance was lost", what, len(h.out), h.max, n))
		}
		time.Sleep(100 * time.Microsecond)
	}
	if len(h.out) > h.max {
		// give a request that wrongly gets an instance the chance to show up
		time.Sleep(300 * time.Microsecond)
	}
}

func (h *poolHarness) finishAll(x *Ctx) {
	for len(h.out) > 0 {
		h.releaseParked(x, 0)
		h.settle(x, "draining")
	}
}

// fullCall builds arguments for method that schedule exactly the rules in names
// (names sorted by descending salience).
func fullCall(method string, names []string, salt int) gx.Call {
	m, _ := gx.Lookup(method)
	c := gx.Call{Method: method, B: true}
	if m.Selected {
		for i := range names {
			c.Names = append(c.Names, names[(i+salt)%len(names)])
		}
	}
	if m.NM {
		c.N = 1 + salt%(len(names)-1)
		c.M = len(names) - c.N
	}
	if m.Shape == gx.ShDAG {
		if salt%2 == 0 {
			c.DAG = [][]string{append([]string{}, names...)}
		} else {
			c.DAG = [][]string{{names[0]}, append([]string{}, names[1:]...)}
		}
	}
	return c
}
