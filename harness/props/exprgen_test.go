package props

import (
	"fmt"
	"math"
	"reflect"

	"pgregory.net/rapid"

	"verif/dsl"
)

// Scalars holds one value of every Go numeric kind plus string and bool.
type Scalars struct {
	I   int     `json:"i"`
	I8  int8    `json:"i8"`
	I16 int16   `json:"i16"`
	I32 int32   `json:"i32"`
	I64 int64   `json:"i64"`
	U   uint    `json:"u"`
	U8  uint8   `json:"u8"`
	U16 uint16  `json:"u16"`
	U32 uint32  `json:"u32"`
	U64 uint64  `json:"u64"`
	F32 float32 `json:"f32"`
	F64 float64 `json:"f64"`
	Str string  `json:"str"`
	B   bool    `json:"b"`
}

// Host is the struct injected (by pointer as "P", by value as "V") into expression cases.
type Host struct {
	Scalars
	In  Scalars  `json:"in"`
	PIn *Scalars `json:"pin"`
}

// ExprWorld is the injected data of a C01 case.
type ExprWorld struct {
	G Scalars `json:"g"`
	P Host    `json:"p"`
}

var scalarFields = []struct {
	Name  string
	Class byte
}{
	{"I", 'i'}, {"I8", 'i'}, {"I16", 'i'}, {"I32", 'i'}, {"I64", 'i'},
	{"U", 'u'}, {"U8", 'u'}, {"U16", 'u'}, {"U32", 'u'}, {"U64", 'u'},
	{"F32", 'f'}, {"F64", 'f'}, {"Str", 's'}, {"B", 'b'},
}

var twinFields = map[string]bool{"I64": true, "I32": true, "U8": true, "F64": true, "Str": true, "B": true}

// twinA and twinB return pointers to two different struct types that are both called Twin
// (reflect prints "props.Twin" for either) and hold the same fields in opposite order.
func twinA(s Scalars) interface{} {
	type Twin struct {
		I64 int64
		I32 int32
		U8  uint8
		F64 float64
		Str string
		B   bool
	}
	return &Twin{s.I64, s.I32, s.U8, s.F64, s.Str, s.B}
}

func twinB(s Scalars) interface{} {
	type Twin struct {
		B   bool
		Str string
		F64 float64
		U8  uint8
		I32 int32
		I64 int64
	}
	return &Twin{s.B, s.Str, s.F64, s.U8, s.I32, s.I64}
}

// inject builds the name -> object table. Every call returns fresh, independent objects.
func (w *ExprWorld) inject() map[string]interface{} {
	m := map[string]interface{}{}
	gv := reflect.ValueOf(w.G)
	for _, f := range scalarFields {
		m["g"+f.Name] = gv.FieldByName(f.Name).Interface()
	}
	p := w.P
	if w.P.PIn != nil {
		c := *w.P.PIn
		p.PIn = &c
	}
	v := p
	m["P"] = &p
	m["V"] = v
	m["Q1"] = twinA(w.G)
	m["Q2"] = twinB(w.P.In)
	m["Z"] = &Scalars{} // every cell zero: zero divisors of every Go numeric kind
	return m
}

var interestingInts = []int64{0, 1, -1, 2, -2, 3, 7, 10, -10, 100, 255, 256, -128, 32767, 65536,
	2147483647, 2147483648, -2147483648, -2147483649, 4294967295, 4294967296,
	9007199254740991, 9007199254740992, 9007199254740993, -9007199254740993, 9007199254740994,
	9223372036854775807, 9223372036854775806, -9223372036854775808, -9223372036854775807,
	4611686018427387904, 3037000500, -3037000500}

func genInt64(t *rapid.T, label string) int64 {
	switch uni(t, label+"_kind", 0, 4) {
	case 4:
		// the neighbourhood of every power of two, both signs (127, 128, 129, -32769, ...)
		v := int64(1)<<uint(uni(t, label+"_pow", 0, 62)) + int64(uni(t, label+"_off", -2, 2))
		if rapid.Bool().Draw(t, label+"_neg") {
			v = -v
		}
		return v
	case 0:
		return rapid.SampledFrom(interestingInts).Draw(t, label)
	case 1:
		return int64(uni(t, label, -20, 20))
	case 2:
		return rapid.Int64().Draw(t, label)
	}
	return rapid.Int64Range(-1000000, 1000000).Draw(t, label)
}

func genUint64(t *rapid.T, label string) uint64 {
	switch uni(t, label+"_kind", 0, 3) {
	case 0:
		return rapid.SampledFrom([]uint64{0, 1, 2, 255, 65535, 4294967295, 4294967296, 9007199254740992, 9007199254740993, 9223372036854775807, 9223372036854775808, 18446744073709551615, 18446744073709551614}).Draw(t, label)
	case 1:
		return uint64(uni(t, label, 0, 20))
	case 2:
		return rapid.Uint64().Draw(t, label)
	}
	return rapid.Uint64Range(0, 1000000).Draw(t, label)
}

var interestingFloats = []float64{0, 1, -1, 0.5, -0.5, 2.5, 1e10, -1e10, 1e-10, 3.0, 9007199254740992, 9007199254740993, 9223372036854775807, 1.7976931348623157e308, 5e-324, 0.1, 0.2, 1e22, 123456.789, -0.0}

func genFloat64(t *rapid.T, label string) float64 {
	switch uni(t, label+"_kind", 0, 3) {
	case 0:
		return rapid.SampledFrom(interestingFloats).Draw(t, label)
	case 1:
		return float64(uni(t, label, -20, 20))
	case 2:
		f := rapid.Float64().Draw(t, label)
		if math.IsNaN(f) || math.IsInf(f, 0) {
			return 1.5
		}
		return f
	}
	return float64(rapid.Int64Range(-1000000, 1000000).Draw(t, label)) / 64
}

var strAlphabet = []rune("abcxyzABZ019 _-+*/<>=!&|().,;:{}[]@#$%^~'éß中😀")

var strPool = []string{"", "a", "ab", "abc", "b", "B", "a ", "é", "ab0", "10", "9",
	"a // not a comment", "//", "end", "rule", "true", "@name", " lead", "{ }", "1 + 2", "x = 1", "\\n", "tab\there"}

func genStr(t *rapid.T, label string) string {
	if pct(t, label+"_pool", 55) {
		return strPool[uni(t, label+"_pooled", 0, len(strPool)-1)]
	}
	n := uni(t, label+"_len", 0, 5)
	rs := make([]rune, n)
	for i := range rs {
		rs[i] = rapid.SampledFrom(strAlphabet).Draw(t, label)
	}
	return string(rs)
}

func genScalars(t *rapid.T, label string) Scalars {
	i64 := func(l string, lo, hi int64) int64 {
		v := genInt64(t, label+l)
		if v < lo || v > hi {
			return lo + int64(uint64(v)%uint64(hi-lo+1))
		}
		return v
	}
	u64 := func(l string, hi uint64) uint64 {
		v := genUint64(t, label+l)
		if hi != math.MaxUint64 && v > hi {
			return v % (hi + 1)
		}
		return v
	}
	return Scalars{
		I: int(genInt64(t, label+"I")), I8: int8(i64("I8", -128, 127)), I16: int16(i64("I16", -32768, 32767)),
		I32: int32(i64("I32", -2147483648, 2147483647)), I64: genInt64(t, label+"I64"),
		U: uint(genUint64(t, label+"U")), U8: uint8(u64("U8", 255)), U16: uint16(u64("U16", 65535)),
		U32: uint32(u64("U32", 4294967295)), U64: genUint64(t, label+"U64"),
		F32: float32(uni(t, label+"F32", -4096, 4096)) / 8, F64: genFloat64(t, label+"F64"),
		Str: genStr(t, label+"Str"), B: rapid.Bool().Draw(t, label+"B"),
	}
}

var clusterBases = []int64{9007199254740992, 9007199254740993, 9223372036854775805, 4611686018427387904, -9007199254740993, -9223372036854775806, 2147483647, 4294967296, 0, 100, 36028797018963968, 18014398509481985}

// cluster makes the 64-bit wide cells of s near-equal (base + small delta): comparisons and
// differences between different fields, kinds and signednesses then sit exactly on the
// boundaries where float64 rounding, signedness and width matter.
func cluster(t *rapid.T, label string, s *Scalars, base int64) {
	d := func(l string) int64 { return int64(uni(t, label+l, -2, 2)) }
	s.I = int(base + d("I"))
	s.I64 = base + d("I64")
	if base > 2 {
		s.U = uint(base + d("U"))
		s.U64 = uint64(base + d("U64"))
		if pct(t, label+"hi", 25) {
			// the same cluster shifted into the upper half of uint64
			s.U64 = uint64(base+d("U64b")) + 9223372036854775808
			s.U = uint(uint64(base+d("Ub")) + 9223372036854775808)
		}
	}
	if pct(t, label+"F", 50) {
		s.F64 = float64(base + d("F64"))
	}
}

func genExprWorld(t *rapid.T) ExprWorld {
	w := ExprWorld{G: genScalars(t, "g."), P: Host{Scalars: genScalars(t, "p."), In: genScalars(t, "p.in.")}}
	s := genScalars(t, "p.pin.")
	w.P.PIn = &s
	if pct(t, "cluster", 40) {
		base := clusterBases[uni(t, "cluster_base", 0, len(clusterBases)-1)]
		cluster(t, "cl.g.", &w.G, base)
		cluster(t, "cl.p.", &w.P.Scalars, base)
		cluster(t, "cl.in.", &w.P.In, base)
		cluster(t, "cl.pin.", w.P.PIn, base)
	}
	return w
}

// exprGen is a type-directed generator of expression trees over the ExprWorld names and
// the rule's locals.
type exprGen struct {
	t       *rapid.T
	locals  map[byte][]string // class -> local names assigned so far
	n       int               // node counter
	faultAt int               // plant a fault when n reaches this value (-1: none)
	fault   string            // class of the planted fault ("" if none was planted)
	atoms   bool              // allow @-constants
	parenP  int               // probability (percent) of a redundant parenthesis
	custom  func(class byte) *dsl.Expr // optional atom source replacing the ExprWorld atoms
}

func (g *exprGen) lbl(s string) string { g.n++; return fmt.Sprintf("%s#%d", s, g.n) }

func (g *exprGen) paren(e *dsl.Expr) *dsl.Expr {
	if g.parenP > 0 && pct(g.t, g.lbl("par"), g.parenP) {
		e.Par++
	}
	return e
}

func (g *exprGen) injectedName(class byte) string {
	var fs []string
	for _, f := range scalarFields {
		if f.Class == class {
			fs = append(fs, f.Name)
		}
	}
	f := fs[uni(g.t, g.lbl("field"), 0, len(fs)-1)]
	switch uni(g.t, g.lbl("path"), 0, 7) {
	case 6, 7:
		// two struct types that print the same name but lay their fields out differently
		if twinFields[f] {
			return []string{"Q1.", "Q2."}[uni(g.t, g.lbl("twin"), 0, 1)] + f
		}
		return "g" + f
	case 0, 1:
		return "g" + f
	case 2:
		return "P." + f
	case 3:
		return "V." + f
	case 4:
		return "P.In." + f
	}
	return "P.PIn." + f
}

// atom of the wanted class.
func (g *exprGen) atom(class byte) *dsl.Expr {
	t := g.t
	if g.custom != nil {
		if e := g.custom(class); e != nil {
			return e
		}
	}
	if ls := g.locals[class]; len(ls) > 0 && pct(t, g.lbl("uselocal"), 25) {
		return dsl.Var(ls[uni(t, g.lbl("local"), 0, len(ls)-1)])
	}
	switch class {
	case 'i':
		switch uni(t, g.lbl("iatom"), 0, 9) {
		case 0, 1, 2, 3:
			return dsl.Int(genInt64(t, g.lbl("ilit")))
		case 4:
			if g.atoms {
				return &dsl.Expr{K: dsl.KAtID}
			}
		case 5:
			if g.atoms {
				return &dsl.Expr{K: dsl.KAtSal}
			}
		}
		return dsl.Var(g.injectedName('i'))
	case 'u':
		return dsl.Var(g.injectedName('u'))
	case 'f':
		if pct(t, g.lbl("flit"), 50) {
			return dsl.Real(genFloat64(t, g.lbl("fval")))
		}
		return dsl.Var(g.injectedName('f'))
	case 's':
		switch uni(t, g.lbl("satom"), 0, 5) {
		case 0, 1, 2:
			return dsl.Str(genStr(t, g.lbl("slit")))
		case 3:
			if g.atoms {
				return &dsl.Expr{K: dsl.KAtName}
			}
		case 4:
			if g.atoms {
				return &dsl.Expr{K: dsl.KAtDesc}
			}
		}
		return dsl.Var(g.injectedName('s'))
	default:
		if pct(t, g.lbl("blit"), 50) {
			return dsl.Bool(rapid.Bool().Draw(t, g.lbl("bval")))
		}
		return dsl.Var(g.injectedName('b'))
	}
}

func cloneExpr(e *dsl.Expr) *dsl.Expr {
	if e == nil {
		return nil
	}
	c := *e
	c.L, c.R, c.Key = cloneExpr(e.L), cloneExpr(e.R), cloneExpr(e.Key)
	c.Args = nil
	for _, a := range e.Args {
		c.Args = append(c.Args, cloneExpr(a))
	}
	return &c
}

// wideAtom is an injected 64-bit wide integer cell (platform int/uint or int64/uint64),
// occasionally a float64 or a literal.
func (g *exprGen) wideAtom() *dsl.Expr {
	if g.custom != nil {
		return g.atom(g.numClass("wc"))
	}
	f := []string{"I", "I64", "U", "U64", "I", "U", "F64"}[uni(g.t, g.lbl("wide"), 0, 6)]
	switch uni(g.t, g.lbl("wpath"), 0, 5) {
	case 0, 1:
		return dsl.Var("g" + f)
	case 2:
		return dsl.Var("P." + f)
	case 3:
		return dsl.Var("V." + f)
	case 4:
		return dsl.Var("P.In." + f)
	}
	return dsl.Var("P.PIn." + f)
}

var arithOps = []string{"+", "-", "*", "/"}
var cmpOps = []string{"==", "!=", "<", ">", "<=", ">="}

func (g *exprGen) numClass(label string) byte {
	return []byte{'i', 'i', 'u', 'f'}[uni(g.t, g.lbl(label), 0, 3)]
}

// divisor generates a right operand for "/" that is usually non-zero.
func (g *exprGen) divisor(class byte, depth int) *dsl.Expr {
	if pct(g.t, g.lbl("div_lit"), 70) {
		switch class {
		case 'i':
			v := genInt64(g.t, g.lbl("divisor"))
			if v == 0 {
				v = 3
			}
			return dsl.Int(v)
		case 'f':
			v := genFloat64(g.t, g.lbl("divisor"))
			if v == 0 {
				v = 0.5
			}
			return dsl.Real(v)
		}
	}
	return g.expr(class, depth)
}

// expr generates a well-typed expression of the wanted class (or, exactly once when the
// node counter reaches faultAt, a faulty construct that stands where that class is wanted).
func (g *exprGen) expr(class byte, depth int) *dsl.Expr {
	t := g.t
	g.n++
	if g.faultAt >= 0 && g.n >= g.faultAt && g.fault == "" {
		if f := g.plant(class, depth); f != nil {
			return f
		}
	}
	if depth <= 0 || pct(t, g.lbl("leaf"), 22) {
		return g.paren(g.atom(class))
	}
	d := depth - 1
	var e *dsl.Expr
	switch class {
	case 'i':
		op := arithOps[uni(t, g.lbl("op"), 0, 3)]
		lc, rc := byte('i'), byte('i')
		switch uni(t, g.lbl("mix"), 0, 5) {
		case 0:
			lc = 'u'
		case 1:
			rc = 'u'
		}
		l := g.expr(lc, d)
		var r *dsl.Expr
		if op == "/" {
			r = g.divisor(rc, d)
		} else {
			r = g.expr(rc, d)
		}
		e = dsl.Bin(op, l, r)
	case 'u':
		op := arithOps[uni(t, g.lbl("op"), 0, 3)]
		e = dsl.Bin(op, g.expr('u', d), g.expr('u', d))
	case 'f':
		op := arithOps[uni(t, g.lbl("op"), 0, 3)]
		lc, rc := byte('f'), byte('f')
		switch uni(t, g.lbl("mix"), 0, 3) {
		case 0:
			lc = g.numClass("lc")
		case 1:
			rc = g.numClass("rc")
		}
		l := g.expr(lc, d)
		var r *dsl.Expr
		if op == "/" {
			r = g.divisor(rc, d)
		} else {
			r = g.expr(rc, d)
		}
		e = dsl.Bin(op, l, r)
	case 's':
		e = dsl.Bin("+", g.expr('s', d), g.expr('s', d))
	default:
		switch uni(t, g.lbl("bkind"), 0, 11) {
		case 10, 11:
			// two atoms compared directly (fields of different kind / signedness / width)
			op := cmpOps[uni(t, g.lbl("cmp"), 0, 5)]
			e = dsl.Bin(op, g.wideAtom(), g.wideAtom())
		case 0, 1, 2, 3:
			op := cmpOps[uni(t, g.lbl("cmp"), 0, 5)]
			l := g.expr(g.numClass("lc"), d)
			if pct(t, g.lbl("cmp_same"), 12) {
				// equal operands: the boundary of <= >= == != is exercised
				e = dsl.Bin(op, l, cloneExpr(l))
			} else {
				e = dsl.Bin(op, l, g.expr(g.numClass("rc"), d))
			}
		case 4:
			op := cmpOps[uni(t, g.lbl("cmp"), 0, 5)]
			l := g.expr('s', d)
			if pct(t, g.lbl("cmp_same"), 12) {
				e = dsl.Bin(op, l, cloneExpr(l))
			} else {
				e = dsl.Bin(op, l, g.expr('s', d))
			}
		case 5:
			op := cmpOps[uni(t, g.lbl("eq"), 0, 1)]
			e = dsl.Bin(op, g.expr('b', d), g.expr('b', d))
		case 6, 7, 8:
			op := []string{"&&", "||"}[uni(t, g.lbl("logic"), 0, 1)]
			e = dsl.Bin(op, g.expr('b', d), g.expr('b', d))
		default:
			e = dsl.Not(g.expr('b', d))
		}
	}
	return g.paren(e)
}

// chain generates one flat operator chain of 10-200 operands without brackets: terms joined by
// + and -, each term 1-3 atoms joined by * and / (numeric classes), a concatenation of string
// atoms, or boolean atoms joined by one logical operator. The tree leans left as the grammar
// parses such a chain, so the printer emits no brackets.
func (g *exprGen) chain(class byte) *dsl.Expr {
	t := g.t
	n := []int{0, 0, 63, 64, 65, 66, 67, 128, 129, 130}[uni(t, g.lbl("chain_n_kind"), 0, 9)]
	if n == 0 {
		n = uni(t, g.lbl("chain_n"), 10, 200)
	}
	switch class {
	case 'i', 'u', 'f':
		term := func() *dsl.Expr {
			e := g.atom(class)
			for k := uni(t, g.lbl("chain_factors"), 0, 2); k > 0; k-- {
				if pct(t, g.lbl("chain_div"), 30) {
					e = dsl.Bin("/", e, g.divisor(class, 0))
				} else {
					e = dsl.Bin("*", e, g.atom(class))
				}
			}
			return e
		}
		e := term()
		for i := 1; i < n; i++ {
			e = dsl.Bin([]string{"+", "-"}[uni(t, g.lbl("chain_op"), 0, 1)], e, term())
		}
		return e
	case 's':
		e := g.atom('s')
		for i := 1; i < n; i++ {
			e = dsl.Bin("+", e, g.atom('s'))
		}
		return e
	default:
		op := []string{"&&", "||"}[uni(t, g.lbl("chain_logic"), 0, 1)]
		e := g.atom('b')
		for i := 1; i < n; i++ {
			e = dsl.Bin(op, e, g.atom('b'))
		}
		return e
	}
}

// plant returns a faulty construct standing in for an expression of the wanted class.
func (g *exprGen) plant(class byte, depth int) *dsl.Expr {
	t := g.t
	g.fault = "(planting)" // exactly one fault: sub-expressions of the faulty construct are well typed
	d := depth - 1
	if d < 0 {
		d = 0
	}
	var e *dsl.Expr
	var kind string
	switch class {
	case 'i', 'u', 'f':
		switch uni(t, g.lbl("fault"), 0, 8) {
		case 7, 8:
			// zero divisor of a specific Go kind (injected zero cell), dividend of any numeric class
			f := []string{"I", "I8", "I16", "I32", "I64", "U", "U8", "U16", "U32", "U64", "F32", "F64"}[uni(t, g.lbl("zkind"), 0, 11)]
			kind = "divzero-injected-" + f
			e = dsl.Bin("/", g.expr(g.numClass("dc"), d), dsl.Var("Z."+f))
		case 0:
			kind = "arith-string"
			op := arithOps[uni(t, g.lbl("fop"), 0, 3)]
			if pct(t, g.lbl("fside"), 50) {
				e = dsl.Bin(op, g.atom('s'), g.expr(class, d))
			} else {
				e = dsl.Bin(op, g.expr(class, d), g.atom('s'))
			}
		case 1:
			kind = "arith-bool"
			op := arithOps[uni(t, g.lbl("fop"), 0, 3)]
			if pct(t, g.lbl("fside"), 50) {
				e = dsl.Bin(op, g.atom('b'), g.expr(class, d))
			} else {
				e = dsl.Bin(op, g.expr(class, d), g.atom('b'))
			}
		case 2:
			kind = "divzero-int"
			e = dsl.Bin("/", g.expr(class, d), dsl.Int(0))
		case 3:
			kind = "divzero-float"
			z := 0.0
			if pct(t, g.lbl("negzero"), 30) {
				z = math.Copysign(0, -1)
			}
			e = dsl.Bin("/", g.expr(class, d), dsl.Real(z))
		case 4:
			kind = "divzero-expr"
			a := g.atom('i')
			b := *a
			e = dsl.Bin("/", g.expr(class, d), dsl.Bin("-", a, &b))
		case 5:
			kind = "divzero-uint-expr"
			a := g.atom('u')
			b := *a
			e = dsl.Bin("/", g.expr(class, d), dsl.Bin("-", a, &b))
		default:
			kind = "string-minus"
			e = dsl.Bin([]string{"-", "*", "/"}[uni(t, g.lbl("fop"), 0, 2)], g.atom('s'), g.atom('s'))
		}
	case 's':
		kind = "concat-number"
		if pct(t, g.lbl("fside"), 50) {
			e = dsl.Bin("+", g.atom('s'), g.atom(g.numClass("fc")))
		} else {
			e = dsl.Bin("+", g.atom(g.numClass("fc")), g.atom('s'))
		}
	default:
		switch uni(t, g.lbl("fault"), 0, 5) {
		case 0:
			kind = "cmp-string-number"
			op := cmpOps[uni(t, g.lbl("cmp"), 0, 5)]
			if pct(t, g.lbl("fside"), 50) {
				e = dsl.Bin(op, g.expr('s', d), g.expr(g.numClass("fc"), d))
			} else {
				e = dsl.Bin(op, g.expr(g.numClass("fc"), d), g.expr('s', d))
			}
		case 1:
			kind = "cmp-bool-number"
			op := cmpOps[uni(t, g.lbl("cmp"), 0, 5)]
			e = dsl.Bin(op, g.atom('b'), g.expr(g.numClass("fc"), d))
		case 2:
			kind = "cmp-bool-order"
			op := cmpOps[uni(t, g.lbl("cmp"), 2, 5)]
			e = dsl.Bin(op, g.expr('b', d), g.expr('b', d))
		case 3:
			kind = "logic-nonbool"
			op := []string{"&&", "||"}[uni(t, g.lbl("logic"), 0, 1)]
			bad := g.atom([]byte{'i', 'u', 'f', 's'}[uni(t, g.lbl("fc"), 0, 3)])
			if pct(t, g.lbl("fside"), 50) {
				e = dsl.Bin(op, bad, g.expr('b', d))
			} else {
				e = dsl.Bin(op, g.expr('b', d), bad)
			}
		case 4:
			kind = "not-nonbool-atom"
			e = dsl.Not(g.atom([]byte{'i', 'u', 'f', 's'}[uni(t, g.lbl("fc"), 0, 3)]))
		default:
			kind = "not-nonbool-paren"
			e = dsl.Not(g.expr(g.numClass("fc"), d))
		}
	}
	g.fault = kind
	e.Fault = kind
	return e
}

// genRuleName draws a rule name: non-numeric, decimal (optional '-', leading zeros), mixed.
func genRuleName(t *rapid.T, label string, idx int) string {
	switch uni(t, label+"_kind", 0, 4) {
	case 0:
		return fmt.Sprintf("r%d", idx)
	case 1:
		return fmt.Sprintf("%d", genInt64(t, label+"_num")%1000000000000000000)
	case 2:
		return fmt.Sprintf("00%d", uni(t, label+"_lz", 0, 999)*10+idx)
	case 3:
		return fmt.Sprintf("%d", 1000+idx*7+uni(t, label+"_n", 0, 5)*100)
	}
	return fmt.Sprintf("rule %d é", idx)
}

func genHeader(t *rapid.T, r *dsl.Rule, idx int) {
	r.Name = genRuleName(t, fmt.Sprintf("name%d", idx), idx)
	if pct(t, fmt.Sprintf("hasdesc%d", idx), 60) {
		r.HasDesc = true
		r.Desc = genStr(t, fmt.Sprintf("desc%d", idx))
	}
	if pct(t, fmt.Sprintf("hassal%d", idx), 60) {
		r.HasSal = true
		r.Sal = genSal(t, fmt.Sprintf("sal%d", idx))
	}
}

func genLayout(t *rapid.T, p int) []byte {
	if !pct(t, "fancy_layout", p) {
		return nil
	}
	n := uni(t, "laylen", 3, 24)
	out := make([]byte, n)
	for i := range out {
		out[i] = byte(uni(t, "lay", 0, 29))
		if pct(t, "lay_ext", 20) {
			out[i] = byte(uni(t, "lay_x", 100, 159)) // tabs, CR LF, keywords in upper / title case
		}
	}
	return out
}
