package props

import (
	"fmt"
	"sort"
	"testing"

	"pgregory.net/rapid"

	"verif/gx"
	"verif/models"
	"verif/obs"
)

// C05 - mix, inverse-mix, N-M models: stage barriers hold, scheduled rules run once.
var c05Methods = []string{
	"ExecuteMixModel", "ExecuteInverseMixModel",
	"ExecuteNSortMConcurrent", "ExecuteNConcurrentMSort", "ExecuteNConcurrentMConcurrent",
	"ExecuteSelectedRulesMixModel", "ExecuteSelectedRulesInverseMixModel",
	"ExecuteSelectedNSortMConcurrent", "ExecuteSelectedNConcurrentMSort", "ExecuteSelectedNConcurrentMConcurrent",
	"ExecuteRulesWithSpecifiedEM", "ExecuteSelectedWithSpecifiedEM",
}

// sortedOrder returns rule indices in (stable) non-increasing salience order.
func sortedOrder(rs []models.Rule, only map[string]bool) []int {
	var idx []int
	for i, r := range rs {
		if only == nil || only[r.Name] {
			idx = append(idx, i)
		}
	}
	sort.SliceStable(idx, func(a, b int) bool { return rs[idx[a]].Sal > rs[idx[b]].Sal })
	return idx
}

// genNM draws an N/M split for k scheduled rules; mostly valid, sometimes invalid.
func genNM(t *rapid.T, k int) (int, int) {
	if k >= 2 && pct(t, "nm_valid", 88) {
		total := rapid.IntRange(2, k).Draw(t, "nm_total")
		n := rapid.IntRange(1, total-1).Draw(t, "nm_n")
		return n, total - n
	}
	return rapid.IntRange(-1, k+1).Draw(t, "nm_n_any"), rapid.IntRange(-1, k+1).Draw(t, "nm_m_any")
}

// genVictims puts Hold gates on rules that sit before a barrier (or early in a sorted
// stage) according to the reference model, and Yield gates on some others.
func genVictims(t *rapid.T, c *SchedCase, sched []int, firstStage int) {
	c.Gates = map[string]int{}
	if len(sched) == 0 {
		return
	}
	if pct(t, "victims", 75) {
		nv := rapid.IntRange(1, 2).Draw(t, "nvictims")
		for v := 0; v < nv; v++ {
			hi := len(sched) - 1
			if firstStage > 0 && firstStage <= len(sched) && pct(t, fmt.Sprintf("victim_stage1_%d", v), 80) {
				hi = firstStage - 1
			}
			p := rapid.IntRange(0, hi).Draw(t, fmt.Sprintf("victim%d", v))
			c.Gates[c.Rules[sched[p]].Name] = obs.Hold
		}
	}
	for _, i := range sched {
		if _, ok := c.Gates[c.Rules[i].Name]; !ok && pct(t, "yield_"+c.Rules[i].Name, 30) {
			c.Gates[c.Rules[i].Name] = obs.Yield
		}
	}
}

func quiesMs() int {
	if thorough() {
		return 8
	}
	return 3
}

// parkedBeforeSuccessor reports whether some rule was parked on a Hold gate and another
// rule started after its release (i.e. the schedule really exercised an ordering).
func parkedBeforeSuccessor(in *models.Input) bool {
	rel := -1
	for _, e := range in.Trace {
		if e.Kind == "R" && rel < 0 {
			rel = e.Seq
		}
		if e.Kind == "S" && rel >= 0 && e.Seq > rel {
			return true
		}
	}
	return false
}

func init() {
	register(&Prop{
		ID:   "C05",
		Rule: "rule sets of 1-8 observer rules (ties), model in {mix, inverse-mix, NSortMConc, NConcMSort, NConcMConc and their selected variants, pool *SpecifiedEM with em 3/4} on engine and pool, valid and invalid N/M splits, random failing subset (failing statement drawn from 12 forms as in C04), both flag values, and a schedule: in ~75% of cases 1-2 rules that the reference model places before a barrier are parked on a Hold gate and released only after the event log went quiet; oracle = reference stage predicate (exactly-once, window by salience multiset, barrier by event sequence numbers, error policy). Non-trivial: a rule was parked and another rule started after its release, or stop-on-error with a failing rule; distinct by case hash",
		New:  func() interface{} { return &SchedCase{} },
		Gen: func(t *rapid.T) interface{} {
			c := &SchedCase{QuiesMs: quiesMs()}
			c.Rules = genRules(t, 1, 8, 15, 0, 50)
			genBuildsReplacing(t, c)
			c.Pool = rapid.Bool().Draw(t, "pool")
			var names []string
			for _, n := range c05Methods {
				m, _ := gx.Lookup(n)
				if (c.Pool && m.OnPool) || (!c.Pool && m.OnEngine) {
					names = append(names, n)
				}
			}
			c.Call.Method = rapid.SampledFrom(names).Draw(t, "method")
			m, _ := gx.Lookup(c.Call.Method)
			if c.Pool {
				genPoolSize(t, c)
				if m.Shape == gx.ShByEM {
					c.EM = rapid.IntRange(3, 4).Draw(t, "em34")
				}
			}
			if m.HasB {
				c.Call.B = rapid.Bool().Draw(t, "b")
			}
			var only map[string]bool
			if m.Selected {
				minK := 0
				if pct(t, "names_many", 85) {
					minK = 3
				}
				c.Call.Names = genNamesMin(t, c.Rules, 0, minK)
				only = map[string]bool{}
				for _, n := range c.Call.Names {
					only[n] = true
				}
			}
			sched := sortedOrder(c.Rules, only)
			first := 0
			shape, _, _ := models.EffectiveShape(m, c.EM)
			switch shape {
			case gx.ShMix:
				first = 1
			case gx.ShInv:
				first = len(sched) - 1
			}
			if m.NM {
				if m.Selected && pct(t, "nm_match", 85) && len(sched) >= 2 {
					c.Call.N = rapid.IntRange(1, len(sched)-1).Draw(t, "sel_n")
					c.Call.M = len(sched) - c.Call.N
				} else {
					c.Call.N, c.Call.M = genNM(t, len(sched))
				}
				first = c.Call.N
			}
			genVictims(t, c, sched, first)
			genPrior(t, c)
			return c
		},
		Check: func(ci interface{}, x *Ctx) {
			c := ci.(*SchedCase)
			m, _ := gx.Lookup(c.Call.Method)
			shape, _, _ := models.EffectiveShape(m, c.EM)
			x.Class("shape:" + shape)
			x.Class("method:" + c.Call.Method)
			x.Class(fmt.Sprintf("nrules:%d", len(c.Rules)))
			if c.Pool {
				x.Class("pool")
			}
			holds := 0
			for _, g := range c.Gates {
				if g == obs.Hold {
					holds++
				}
			}
			if holds > 0 {
				x.Class("has-parked-victim")
			}
			in, ok := checkSched(x, c)
			if !ok {
				return
			}
			nfail := 0
			for _, r := range c.Rules {
				if r.Fails {
					nfail++
				}
			}
			if parkedBeforeSuccessor(in) {
				x.Class("parked-then-successor")
				x.NonTrivial()
			}
			if nfail > 0 && m.HasB && !c.Call.B && len(in.Trace) > 0 {
				x.Class("stop-on-error-with-failure")
				x.NonTrivial()
			}
			if m.NM && len(in.Trace) == 0 {
				x.Class("nm-rejected")
			}
		},
	})
}

func TestC05(t *testing.T) { runProp(t, "C05") }
