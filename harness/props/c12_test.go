package props

import (
	"testing"
	"time"

	"pgregory.net/rapid"

	"verif/gx"
	"verif/models"
	"verif/obs"
)

// C12 - selected-rule calls run exactly the named rules, in the promised order.
func selectedMethods(pool bool) []string {
	var out []string
	for _, m := range gx.Methods {
		if m.Selected && ((pool && m.OnPool) || (!pool && m.OnEngine)) {
			out = append(out, m.Name)
		}
	}
	return out
}

func init() {
	register(&Prop{
		ID:   "C12",
		Rule: "rule sets of 1-8 observer rules (ties), name lists = permuted subsets with 0-3 unknown names inserted (also empty and all-unknown lists, never duplicates), every selected variant of engine and pool (sorted, as-given, stop-tag, concurrent, mix, inverse-mix, selected N-M with matching and non-matching N+M), random failing subset (failing statement drawn from 12 forms as in C04) and flag; oracle = reference model instantiated on the named rules that exist (unselected rules never start, as-given order exact, fail-without-running clauses). Non-trivial: >=2 existing names selected and the list is a strict subset or contains an unknown name; distinct by case hash",
		New:  func() interface{} { return &SchedCase{} },
		Gen: func(t *rapid.T) interface{} {
			c := &SchedCase{QuiesMs: 1}
			c.Rules = genRules(t, 1, 8, 15, 10, 50)
			genBuildsReplacing(t, c)
			c.Pool = rapid.Bool().Draw(t, "pool")
			c.Call.Method = rapid.SampledFrom(selectedMethods(c.Pool)).Draw(t, "method")
			m, _ := gx.Lookup(c.Call.Method)
			if c.Pool {
				genPoolSize(t, c)
			}
			if m.HasB {
				c.Call.B = rapid.Bool().Draw(t, "b")
			}
			switch {
			case pct(t, "all_unknown", 6):
				c.Call.Names = []string{"zz0", "zz1"}[:uni(t, "nunk", 0, 2)]
			default:
				minK := 0
				if pct(t, "names_many", 80) {
					minK = 2
				}
				c.Call.Names = genNamesMin(t, c.Rules, 30, minK)
			}
			if m.NM {
				k := len(c.Call.Names)
				if k >= 2 && pct(t, "nm_match", 80) {
					c.Call.N = uni(t, "sel_n", 1, k-1)
					c.Call.M = k - c.Call.N
				} else {
					c.Call.N, c.Call.M = genNM(t, k)
				}
			}
			if !m.NM && len(c.Call.Names) >= 1 && pct(t, "duplicate_name", 10) {
				// a repeated name: how often the rule runs is not defined by the statement, but
				// "never an unselected rule" and "every named existing rule runs" still are
				d := c.Call.Names[uni(t, "dup_which", 0, len(c.Call.Names)-1)]
				pos := uni(t, "dup_pos", 0, len(c.Call.Names))
				c.Call.Names = append(c.Call.Names[:pos:pos], append([]string{d}, c.Call.Names[pos:]...)...)
			}
			c.Gates = map[string]int{}
			for _, r := range c.Rules {
				if pct(t, "yield_"+r.Name, 25) {
					c.Gates[r.Name] = obs.Yield
				}
			}
			genPrior(t, c)
			return c
		},
		Check: func(ci interface{}, x *Ctx) {
			c := ci.(*SchedCase)
			m, _ := gx.Lookup(c.Call.Method)
			x.Class("method:" + c.Call.Method)
			have := map[string]bool{}
			for _, r := range c.Rules {
				have[r.Name] = true
			}
			known, unknown := 0, 0
			for _, n := range c.Call.Names {
				if have[n] {
					known++
				} else {
					unknown++
				}
			}
			if unknown > 0 {
				x.Class("has-unknown-name")
			}
			if known == 0 {
				x.Class("no-existing-name")
			}
			if m.NM && unknown > 0 {
				x.Class("nm-with-unknown-name")
			}
			if known >= 2 && (known < len(c.Rules) || unknown > 0) {
				x.NonTrivial()
			}
			dup := false
			seenName := map[string]bool{}
			for _, n := range c.Call.Names {
				if seenName[n] {
					dup = true
				}
				seenName[n] = true
			}
			if dup {
				x.Class("duplicated-name")
				checkSelectedWithDuplicates(x, c, have)
				return
			}
			in, ok := checkSched(x, c)
			if ok && len(in.Trace) > 0 {
				x.Class("ran-something")
			}
			_ = models.Rule{}
		},
	})
}

// checkSelectedWithDuplicates checks the clauses of C12 that remain defined when a name is
// repeated: no unselected rule starts, no panic; and - when nothing fails and no tag is set -
// every named existing rule starts at least once.
func checkSelectedWithDuplicates(x *Ctx, c *SchedCase, have map[string]bool) {
	env := newSchedEnv()
	tg, err := install(c, env)
	if err == nil {
		err = tg.applyBuilds(c, c.buildsBeforePrior(), len(c.Builds))
	}
	if err != nil {
		x.Violation("install", "valid generated rule text was rejected: %v", err)
		return
	}
	res := runWithSchedule(x, tg, c.Call, c.Gates, time.Millisecond)
	if res.Panic != "" {
		x.Violation("panic/duplicate-names", "call %s panicked: %s", c.Call, truncate(res.Panic, 200))
		return
	}
	named := map[string]bool{}
	for _, n := range c.Call.Names {
		named[n] = true
	}
	started := map[string]bool{}
	for _, e := range env.log.Snapshot() {
		if e.Kind == "S" {
			started[e.Name] = true
			if !named[e.Name] {
				x.Violation("unselected-ran/duplicate-names", "rule %q ran but was not named in %v [call %s]", e.Name, c.Call.Names, c.Call)
				return
			}
		}
	}
	quiet := true
	for _, r := range c.Rules {
		if named[r.Name] && (r.Fails || r.SetsTag) {
			quiet = false
		}
	}
	m, _ := gx.Lookup(c.Call.Method)
	if quiet && m.Shape != gx.ShByEM {
		for n := range named {
			if have[n] && !started[n] {
				x.Violation("named-rule-did-not-run/duplicate-names", "rule %q was named and exists but did not run [call %s]", n, c.Call)
				return
			}
		}
	}
}

func TestC12(t *testing.T) { runProp(t, "C12") }
