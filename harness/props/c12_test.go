package props

import (
	"testing"

	"pgregory.net/rapid"

	"verif/gx"
	"verif/models"
	"verif/obs"
)

// C12 - selected-rule calls run exactly the named rules, in the promised order.
func selectedMethods(pool bool) []string {
	var out []string
	for _, m := range gx.Methods {
		if m.Selected && ((pool && m.OnPool) || (!pool && m.OnEngine)) {
			out = append(out, m.Name)
		}
	}
	return out
}

func init() {
	register(&Prop{
		ID:   "C12",
		Rule: "rule sets of 1-8 observer rules (ties), name lists = permuted subsets with 0-3 unknown names inserted (also empty and all-unknown lists, never duplicates), every selected variant of engine and pool (sorted, as-given, stop-tag, concurrent, mix, inverse-mix, selected N-M with matching and non-matching N+M), random failing subset and flag; oracle = reference model instantiated on the named rules that exist (unselected rules never start, as-given order exact, fail-without-running clauses). Non-trivial: >=2 existing names selected and the list is a strict subset or contains an unknown name; distinct by case hash",
		New:  func() interface{} { return &SchedCase{} },
		Gen: func(t *rapid.T) interface{} {
			c := &SchedCase{QuiesMs: 1}
			c.Rules = genRules(t, 1, 8, 15, 10, 50)
			c.Builds = genBuilds(t, len(c.Rules))
			c.Pool = rapid.Bool().Draw(t, "pool")
			c.Call.Method = rapid.SampledFrom(selectedMethods(c.Pool)).Draw(t, "method")
			m, _ := gx.Lookup(c.Call.Method)
			if c.Pool {
				genPoolSize(t, c)
			}
			if m.HasB {
				c.Call.B = rapid.Bool().Draw(t, "b")
			}
			switch {
			case pct(t, "all_unknown", 6):
				c.Call.Names = []string{"zz0", "zz1"}[:uni(t, "nunk", 0, 2)]
			default:
				minK := 0
				if pct(t, "names_many", 80) {
					minK = 2
				}
				c.Call.Names = genNamesMin(t, c.Rules, 30, minK)
			}
			if m.NM {
				k := len(c.Call.Names)
				if k >= 2 && pct(t, "nm_match", 80) {
					c.Call.N = uni(t, "sel_n", 1, k-1)
					c.Call.M = k - c.Call.N
				} else {
					c.Call.N, c.Call.M = genNM(t, k)
				}
			}
			c.Gates = map[string]int{}
			for _, r := range c.Rules {
				if pct(t, "yield_"+r.Name, 25) {
					c.Gates[r.Name] = obs.Yield
				}
			}
			return c
		},
		Check: func(ci interface{}, x *Ctx) {
			c := ci.(*SchedCase)
			m, _ := gx.Lookup(c.Call.Method)
			x.Class("method:" + c.Call.Method)
			have := map[string]bool{}
			for _, r := range c.Rules {
				have[r.Name] = true
			}
			known, unknown := 0, 0
			for _, n := range c.Call.Names {
				if have[n] {
					known++
				} else {
					unknown++
				}
			}
			if unknown > 0 {
				x.Class("has-unknown-name")
			}
			if known == 0 {
				x.Class("no-existing-name")
			}
			if m.NM && unknown > 0 {
				x.Class("nm-with-unknown-name")
			}
			if known >= 2 && (known < len(c.Rules) || unknown > 0) {
				x.NonTrivial()
			}
			in, ok := checkSched(x, c)
			if ok && len(in.Trace) > 0 {
				x.Class("ran-something")
			}
			_ = models.Rule{}
		},
	})
}

func TestC12(t *testing.T) { runProp(t, "C12") }
