package props

import (
	"fmt"
	"sort"
	"testing"

	"pgregory.net/rapid"

	"verif/gx"
	"verif/models"
	"verif/obs"
)

// C14 - stop tag: once set, no further rule starts.
var c14Twin = map[string]string{
	"ExecuteWithStopTagDirect":                                   "Execute",
	"ExecuteMixModelWithStopTagDirect":                           "ExecuteMixModel",
	"ExecuteSelectedRulesWithControlAndStopTag":                  "ExecuteSelectedRulesWithControl",
	"ExecuteSelectedRulesWithControlAndStopTagAsGivenSortedName": "ExecuteSelectedRulesWithControlAsGivenSortedName",
}

func startedSet(tr []obs.Event) []string {
	var s []string
	for _, e := range tr {
		if e.Kind == "S" {
			s = append(s, e.Name)
		}
	}
	sort.Strings(s)
	return s
}

func init() {
	register(&Prop{
		ID:   "C14",
		Rule: "rule sets of 2-8 observer rules (ties), 0-3 rules that set the injected stop tag at generated positions (plain store, store guarded by a generated true condition, or the condition assigned to the tag; conditions over literals, injected constants, comparisons, brackets, negated brackets and && / ||; rules that do not set the tag may carry a store guarded by a generated false condition), random failing subset (a setter may also fail), both flag values, the four stop-tag methods on engine and pool (selected ones with permuted subsets); oracle = reference model with the stop-tag clause (setter completes, nothing starts after it; mix: nothing else starts if the first rule set it); when no rule sets the tag the same case is also run through the untagged twin on a fresh identical setup and both runs must satisfy the same predicate with equal started sets, error-ness and result maps. Non-trivial: a setter that is neither first nor last in the schedule, or a setter that also fails; distinct by case hash",
		New:  func() interface{} { return &SchedCase{} },
		Gen: func(t *rapid.T) interface{} {
			c := &SchedCase{QuiesMs: 1}
			tagP := 20
			if pct(t, "no_setter", 25) {
				tagP = 0
			}
			c.Rules = genRules(t, 2, 8, 15, tagP, 50)
			genBuildsReplacing(t, c)
			c.Pool = rapid.Bool().Draw(t, "pool")
			if c.Pool {
				genPoolSize(t, c)
			}
			ms := make([]string, 0, 4)
			for k := range c14Twin {
				ms = append(ms, k)
			}
			sort.Strings(ms)
			c.Call.Method = rapid.SampledFrom(ms).Draw(t, "method")
			m, _ := gx.Lookup(c.Call.Method)
			if m.HasB {
				c.Call.B = rapid.Bool().Draw(t, "b")
			}
			if m.Selected {
				c.Call.Names = genNamesMin(t, c.Rules, 15, 2)
			}
			c.Gates = map[string]int{}
			for _, r := range c.Rules {
				if pct(t, "yield_"+r.Name, 25) {
					c.Gates[r.Name] = obs.Yield
				}
			}
			genPrior(t, c)
			return c
		},
		Check: func(ci interface{}, x *Ctx) {
			c := ci.(*SchedCase)
			x.Class("method:" + c.Call.Method)
			m, _ := gx.Lookup(c.Call.Method)
			var only map[string]bool
			if m.Selected {
				only = map[string]bool{}
				for _, n := range c.Call.Names {
					only[n] = true
				}
			}
			order := sortedOrder(c.Rules, only)
			if m.AsGiven {
				order = order[:0]
				for _, n := range c.Call.Names {
					for i, r := range c.Rules {
						if r.Name == n {
							order = append(order, i)
						}
					}
				}
			}
			setters := 0
			for p, i := range order {
				r := c.Rules[i]
				if r.SetsTag {
					setters++
					if p > 0 && p < len(order)-1 {
						x.Class("setter-in-the-middle")
						x.NonTrivial()
					}
					if r.Fails {
						x.Class("setter-also-fails")
						x.NonTrivial()
					}
					if p == 0 {
						x.Class("setter-first")
					}
				}
			}
			x.Class(fmt.Sprintf("setters:%d", setters))
			in, ok := checkSched(x, c)
			if !ok || x.Failed() {
				return
			}
			if setters == 0 {
				// differential: the untagged twin on a fresh identical setup
				x.Class("differential-vs-untagged")
				c2 := *c
				c2.Call.Method = c14Twin[c.Call.Method]
				x2 := &Ctx{Prop: x.Prop}
				in2, ok2 := checkSched(x2, &c2)
				if !ok2 || x2.Failed() {
					for _, v := range x2.viol {
						x.Violation("twin:"+v.Sig, "untagged twin %s: %s", c2.Call.Method, v.Msg)
					}
					return
				}
				// With tied saliences the order inside a tie group is unspecified, so when a
				// rule fails the two runs may legitimately stop at different places; the direct
				// comparison is only demanded where the outcome is determined.
				anyFail, ties := false, false
				seenSal := map[int64]bool{}
				for _, i := range order {
					if c.Rules[i].Fails {
						anyFail = true
					}
					if seenSal[c.Rules[i].Sal] {
						ties = true
					}
					seenSal[c.Rules[i].Sal] = true
				}
				if anyFail && ties && !m.AsGiven {
					x.Class("differential-ambiguous-skipped")
					return
				}
				if fmt.Sprint(startedSet(in.Trace)) != fmt.Sprint(startedSet(in2.Trace)) {
					x.Violation("twin-started", "tag never set, but %s started %v while %s started %v", c.Call.Method, startedSet(in.Trace), c2.Call.Method, startedSet(in2.Trace))
				}
				if in.Err != in2.Err {
					x.Violation("twin-error", "tag never set, but error-ness differs: %s err=%v, %s err=%v", c.Call.Method, in.Err, c2.Call.Method, in2.Err)
				}
				if fmt.Sprint(sortedMap(in.Result)) != fmt.Sprint(sortedMap(in2.Result)) {
					x.Violation("twin-result", "tag never set, but result maps differ: %v vs %v", in.Result, in2.Result)
				}
			}
			_ = models.Rule{}
		},
	})
}

func sortedMap(m map[string]interface{}) []string {
	var out []string
	for k, v := range m {
		out = append(out, fmt.Sprintf("%s=%v", k, v))
	}
	sort.Strings(out)
	return out
}

func TestC14(t *testing.T) { runProp(t, "C14") }
