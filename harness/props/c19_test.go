package props

import (
	"encoding/json"
	"fmt"
	"os"
	"regexp"
	"sort"
	"strings"
	"testing"
	"time"

	"pgregory.net/rapid"
)

// C19 - gengine's own state is free of data races under its concurrent contract.
//
// The binary is built with -race. A case is a scenario of one of the concurrency
// properties (whose generators keep user data free of conflicting accesses); the race
// detector is the monitor. Reports are read from the GORACE log file after every case.
type C19Case struct {
	Kind  string          `json:"kind"`
	Inner json.RawMessage `json:"inner"`
}

var c19Kinds = []string{"C05", "C13", "C06", "C17", "C07", "C18", "C11", "C16", "C05", "C07", "C06"}

var raceLogOffset int64

func raceLogPath() string {
	p := os.Getenv("VERIF_RACELOG")
	if p == "" {
		return ""
	}
	return fmt.Sprintf("%s.%d", p, os.Getpid())
}

// newRaceReports returns the race reports written since the last call.
func newRaceReports() []string {
	p := raceLogPath()
	if p == "" {
		return nil
	}
	b, err := os.ReadFile(p)
	if err != nil || int64(len(b)) <= raceLogOffset {
		return nil
	}
	txt := string(b[raceLogOffset:])
	// only complete reports
	end := strings.LastIndex(txt, "==================\n")
	if end < 0 {
		return nil
	}
	txt = txt[:end+len("==================\n")]
	raceLogOffset += int64(len(txt))
	var out []string
	for _, r := range strings.Split(txt, "WARNING: DATA RACE") {
		if strings.Contains(r, " by goroutine ") {
			out = append(out, r)
		}
	}
	return out
}

var frameRe = regexp.MustCompile(`(?m)^  ([^\s(]+(?:\([^)]*\))?[^\s(]*)\(`)

// raceSignature extracts, for the two accesses of a report, the innermost frame outside
// runtime / reflect / sync, and tells whether at least one of them lies in gengine.
func raceSignature(report string) (sig string, inGengine bool, frames []string) {
	blocks := regexp.MustCompile(`(?m)^(Read|Write|Previous read|Previous write|Atomic|Previous atomic)[^\n]* by [^\n]*:\n((?:  [^\n]*\n      [^\n]*\n)+)`).FindAllStringSubmatch(report, -1)
	for _, b := range blocks {
		fn := ""
		lines := strings.Split(b[2], "\n")
		for i := 0; i+1 < len(lines); i += 2 {
			f := strings.TrimSpace(lines[i])
			if j := strings.LastIndex(f, "("); j > 0 {
				f = f[:j]
			}
			if strings.HasPrefix(f, "runtime.") || strings.HasPrefix(f, "reflect.") || strings.HasPrefix(f, "sync.") || strings.HasPrefix(f, "sync/atomic.") || strings.HasPrefix(f, "internal/") {
				continue
			}
			fn = f
			break
		}
		if fn != "" {
			frames = append(frames, fn)
		}
	}
	if len(frames) > 2 {
		frames = frames[:2]
	}
	for _, f := range frames {
		if strings.Contains(f, "github.com/bilibili/gengine/") {
			inGengine = true
		}
	}
	short := make([]string, len(frames))
	for i, f := range frames {
		f = strings.TrimPrefix(f, "github.com/bilibili/gengine/")
		f = strings.NewReplacer("(", "", ")", "", "*", "").Replace(f)
		// closures: drop the numeric suffix so that signatures survive refactoring of siblings
		f = regexp.MustCompile(`\.func\d+(\.\d+)*$`).ReplaceAllString(f, ".func")
		short[i] = f
	}
	sort.Strings(short)
	return strings.Join(short, "|"), inGengine, frames
}

func init() {
	register(&Prop{
		ID:   "C19",
		Rule: "scenarios drawn from the generators of the concurrency properties (C05 mixed/N-M models with parked rules, C13 DAG, C06 and C17 pool request histories, C07 updates inside and concurrent with executions, C18 conc blocks, C11 20-40-rule concurrent calls, C16 management histories with probe-all; 2% of the cases are pools kept saturated for 2.1-3.4 s of wall-clock time with 1-3 waiting requests), executed in a binary built with -race, GOMAXPROCS in {2,4,16} by shard; user data is never accessed conflictingly by construction (observers are locked, concurrent rules and children touch disjoint objects); oracle = the Go race detector: a report counts iff the innermost frame outside runtime/reflect/sync of at least one of the two accesses lies in a gengine package; signature = unordered pair of those functions. Non-trivial: the scenario is non-trivial for its own property (>= 2 goroutines inside gengine); distinct by case hash",
		New:  func() interface{} { return &C19Case{} },
		Gen: func(t *rapid.T) interface{} {
			k := c19Kinds[uni(t, "scenario", 0, len(c19Kinds)-1)]
			var inner interface{}
			if pct(t, "long_hold", 2) {
				// a pool that stays saturated for seconds of wall-clock time, with waiters (the C17
				// long saturation), here with holds of 2.1-3.4 s
				sz := [][2]int64{{1, 2}, {1, 3}, {2, 3}}[uni(t, "long_hold_size", 0, 2)]
				k = "C17"
				inner = &C17Case{PoolMin: sz[0], PoolMax: sz[1], EM: uni(t, "long_hold_em", 1, 4),
					Slow: &C17Slow{HoldMs: uni(t, "long_hold_ms", 2100, 3400), Waiters: uni(t, "long_hold_waiters", 1, 3), Method: uni(t, "long_hold_m", 0, 23)}}
			} else {
				inner = registry[k].Gen(t)
			}
			if c18, ok := inner.(*C18Case); ok && c18.Engines > 1 {
				// several engines on one builder: children that store into the shared host objects
				// would conflict on user data; they become local assignments
				for _, blk := range c18.Blocks {
					for i := range blk {
						if blk[i].Kind == "field" || blk[i].Kind == "nested" || blk[i].Kind == "nestedp" {
							blk[i].Kind = "local"
						}
					}
				}
			}
			b, err := json.Marshal(inner)
			if err != nil {
				t.Fatalf("inner case: %v", err)
			}
			return &C19Case{Kind: k, Inner: b}
		},
		Check: func(ci interface{}, x *Ctx) {
			c := ci.(*C19Case)
			p := registry[c.Kind]
			inner := p.New()
			if err := json.Unmarshal(c.Inner, inner); err != nil {
				panic(err)
			}
			ix := &Ctx{Prop: c.Kind}
			p.Check(inner, ix)
			x.Class("scenario:" + c.Kind)
			if ix.nontrivial {
				x.NonTrivial()
			}
			if ix.Failed() {
				x.Class("inner-property-violated-(reported-by-its-own-check)")
			}
			// let goroutines that are just finishing (asynchronous put-back) run
			time.Sleep(200 * time.Microsecond)
			for _, r := range newRaceReports() {
				sig, in, frames := raceSignature(r)
				if !in {
					x.Class("race-report-outside-gengine")
					x.Extra("non_gengine_race", truncate(r, 1500))
					continue
				}
				x.Violation("race:"+sig, "data race on gengine's own state between %v (scenario of %s)\n%s", frames, c.Kind, truncate(r, 2500))
			}
		},
	})
}

func TestC19(t *testing.T) { runProp(t, "C19") }
