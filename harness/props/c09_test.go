package props

import (
	"fmt"
	"strings"
	"testing"
	"time"

	"github.com/bilibili/gengine/builder"
	"github.com/bilibili/gengine/context"
	"github.com/bilibili/gengine/engine"
	"pgregory.net/rapid"

	"verif/dsl"
	"verif/gx"
	"verif/models"
	"verif/obs"
)

// C09 - rule faults are contained: execute calls never panic, crash or hang.
type C09Case struct {
	Prog     FaultProgram  `json:"prog"`
	Healthy  []models.Rule `json:"healthy"`
	FaultSal int64         `json:"fault_sal"`
	Pool     bool          `json:"pool,omitempty"`
	PoolMin  int64         `json:"pool_min,omitempty"`
	PoolMax  int64         `json:"pool_max,omitempty"`
	EM       int           `json:"em,omitempty"`
	Call     gx.Call       `json:"call"`
}

const faultyName = "faulty"

func (c *C09Case) faultyRule() *dsl.Rule {
	body, _ := c.Prog.Build()
	pre := []*dsl.Stmt{
		dsl.CallStmt(dsl.Call("S", &dsl.Expr{K: dsl.KAtName})),
		dsl.CallStmt(dsl.Call("gate", &dsl.Expr{K: dsl.KAtName})),
		dsl.CallStmt(dsl.Call("FX", &dsl.Expr{K: dsl.KAtName})),
	}
	b := &dsl.Block{Stmts: append(pre, body.Stmts...), HasRet: body.HasRet, Ret: body.Ret}
	if !b.HasRet {
		b.Stmts = append(b.Stmts, dsl.CallStmt(dsl.Call("E", &dsl.Expr{K: dsl.KAtName})))
	}
	return &dsl.Rule{Name: faultyName, HasDesc: true, Desc: "f", HasSal: true, Sal: c.FaultSal, Body: b}
}

// workout is spliced into every healthy rule: after a contained fault the ordinary access
// paths (map / slice / array element stores, field stores, locals, calls, comparisons and
// arithmetic between signed, unsigned and float fields) must still work,
// in the same call and in later calls.
const workout = "  hm[\"k1\"] = 1\n  hm[\"k2\"] += 2\n  hsl[0] = 2\n  HW.N = 3\n  HW.M[\"k3\"] = 4\n  HW.Arr[1] = 5\n  hx = ok(1) + two(1, 2)\n  HO.Add(1)\n  hmi[2] = 5\n  if HW.U < HW.N && HW.F < HW.N {\n    hx2 = HW.N + HW.U\n  }\n"

func (c *C09Case) text() string {
	var sb strings.Builder
	for i, r := range c.Healthy {
		if i == 0 {
			// exactly one rule does the workout, so its containers are never written concurrently
			sb.WriteString(strings.Replace(ruleText(r), "  E(@name)\n", workout+"  E(@name)\n", 1))
			continue
		}
		sb.WriteString(ruleText(r))
	}
	t, _ := dsl.PrintRules([]*dsl.Rule{c.faultyRule()}, nil)
	sb.WriteString(t)
	return sb.String()
}

func (c *C09Case) allRules() []models.Rule {
	rs := append([]models.Rule{}, c.Healthy...)
	return append(rs, models.Rule{Name: faultyName, Sal: c.FaultSal, Fails: true})
}

// c09Apis: observer functions plus the fault world.
func c09Apis(env *schedEnv) map[string]interface{} {
	m := faultInject(env.log)
	for k, v := range env.apis() {
		m[k] = v
	}
	m["FX"] = func(n string) { env.log.Add("F", n, 0) }
	// objects used only by the first healthy rule's workout
	for k, v := range healthyObjects() {
		m[k] = v
	}
	return m
}

// healthyObjects are the containers the workout writes to.
func healthyObjects() map[string]interface{} {
	return map[string]interface{}{
		"hm": map[string]int64{"k2": 1}, "hsl": []int64{0, 0}, "hmi": map[int64]int64{},
		"HW": &StmtHost{M: map[string]int64{}}, "HO": &FObj{},
	}
}

// genCallFor draws arguments for a method so that the faulty rule is usually scheduled.
func genCallFor(t *rapid.T, method string, rules []models.Rule) gx.Call {
	m, _ := gx.Lookup(method)
	c := gx.Call{Method: method}
	if m.HasB {
		c.B = rapid.Bool().Draw(t, "b")
	}
	k := len(rules)
	if m.Selected {
		var names []string
		for _, r := range rules {
			if r.Name == faultyName || pct(t, "sel_"+r.Name, 75) {
				names = append(names, r.Name)
			}
		}
		perm := rapid.Permutation(names).Draw(t, "name_order")
		c.Names = perm
		if !m.NM && pct(t, "add_unknown", 15) {
			c.Names = append(c.Names, "zz0")
		}
		k = len(names)
	}
	if m.NM {
		if k >= 2 {
			total := k
			if !m.Selected {
				total = uni(t, "nm_total", 2, k)
			}
			c.N = uni(t, "nm_n", 1, total-1)
			c.M = total - c.N
		} else {
			c.N, c.M = 1, 1
		}
	}
	if m.Shape == gx.ShDAG {
		nl := uni(t, "layers", 1, 3)
		c.DAG = make([][]string, nl)
		fl := uni(t, "faulty_layer", 0, nl-1)
		for i := range c.DAG {
			for _, r := range rules {
				if r.Name != faultyName && pct(t, fmt.Sprintf("dag%d_%s", i, r.Name), 50) {
					c.DAG[i] = append(c.DAG[i], r.Name)
				}
			}
			if i == fl {
				c.DAG[i] = append(c.DAG[i], faultyName)
			}
		}
	}
	return c
}

func c09Complete(t *rapid.T, c *C09Case, method string) {
	nh := uni(t, "nhealthy", 2, 4)
	for i := 0; i < nh; i++ {
		r := models.Rule{Name: fmt.Sprintf("h%d", i), Sal: int64(uni(t, fmt.Sprintf("hsal%d", i), -2, 3))}
		if pct(t, fmt.Sprintf("hret%d", i), 50) {
			r.Returns, r.RetVal = true, int64(1000+i)
		}
		c.Healthy = append(c.Healthy, r)
	}
	c.FaultSal = int64(uni(t, "fsal", -3, 4))
	if c.Pool {
		sizes := [][2]int64{{1, 2}, {1, 3}, {2, 3}, {2, 4}}
		s := sizes[uni(t, "pool_size", 0, len(sizes)-1)]
		c.PoolMin, c.PoolMax = s[0], s[1]
		c.EM = uni(t, "em", 1, 4)
	}
	c.Call = genCallFor(t, method, c.allRules())
}

func checkC09(ci interface{}, x *Ctx) {
	c := ci.(*C09Case)
	spec := c.Prog.spec()
	m, _ := gx.Lookup(c.Call.Method)
	shape, _, _ := models.EffectiveShape(m, c.EM)
	x.Class("fault:" + spec.Name)
	x.Class("place:" + c.Prog.placeName())
	if c.Prog.Twice {
		x.Class("two-failing-children-in-one-conc-block")
	}
	x.Class("shape:" + shape)
	if c.Pool {
		x.Class("pool")
	}
	concurrentModel := shape != gx.ShSort
	if !spec.OwnRecover || concurrentModel {
		x.NonTrivial()
	}
	if !spec.OwnRecover {
		x.Class("fault-outside-self-recovering-constructs")
	}
	env := newSchedEnv()
	apis := c09Apis(env)
	text := c.text()
	tg := &schedTarget{env: env}
	if c.Pool {
		p, err := engine.NewGenginePool(c.PoolMin, c.PoolMax, c.EM, text, apis)
		if err != nil {
			x.Violation("compile", "generated text was rejected: %v\n%s", err, text)
			return
		}
		tg.pool = p
	} else {
		dc := context.NewDataContext()
		for k, v := range apis {
			dc.Add(k, v)
		}
		dc.Add("stag", env.tag)
		rb := builder.NewRuleBuilder(dc)
		if err := rb.BuildRuleFromString(text); err != nil {
			x.Violation("compile", "generated text was rejected: %v\n%s", err, text)
			return
		}
		tg.rb, tg.g = rb, engine.NewGengine()
	}
	sigBase := spec.Name + "/" + c.Prog.placeName()
	// 1. the faulty call
	res := runWithSchedule(x, tg, c.Call, nil, time.Millisecond)
	trace := env.log.Snapshot()
	faultyStarted, faultyEnded := false, false
	for _, e := range trace {
		if e.Name == faultyName && e.Kind == "S" {
			faultyStarted = true
		}
		if e.Name == faultyName && e.Kind == "E" {
			faultyEnded = true
		}
	}
	if res.Panic != "" {
		x.Violation("panic:"+sigBase, "call %s panicked: %s\n%s", c.Call, truncate(res.Panic, 300), text)
		return
	}
	if faultyEnded {
		x.Violation("fault-swallowed:"+spec.Name, "the faulty construct (%s at %s) did not make the rule fail: the rule ran to its end and the call returned err=%v\n%s", spec.Name, c.Prog.placeName(), res.Err, text)
		return
	}
	if faultyStarted {
		x.Class("faulty-rule-executed")
	}
	// drop tr events, keep the scheduling events
	var sched []obs.Event
	for _, e := range trace {
		if e.Kind == "S" || e.Kind == "E" || e.Kind == "F" {
			sched = append(sched, e)
		}
	}
	in := models.Input{Rules: c.allRules(), Call: c.Call, EM: c.EM, Trace: sched, Err: res.Err != nil, Result: res.Map}
	for _, v := range models.Validate(in) {
		x.Violation(v.Kind+"/"+shape+":"+sigBase, "%s [call %s; fault %s at %s]\ntrace %v\n%s", v.Msg, c.Call, spec.Name, c.Prog.placeName(), sched, text)
	}
	if x.Failed() {
		return
	}
	// 2. a later healthy call on the same engine / pool is unaffected
	env.log.Reset()
	env.tag.StopTag = false
	hc := gx.Call{Method: "ExecuteSelectedRules", Names: ruleNames(c.Healthy)}
	res2 := runWithSchedule(x, tg, hc, nil, time.Millisecond)
	in2 := models.Input{Rules: c.allRules(), Call: hc, EM: c.EM, Trace: env.log.Snapshot(), Err: res2.Err != nil, Panic: res2.Panic, Result: res2.Map}
	for _, v := range models.Validate(in2) {
		x.Violation("later-call:"+v.Kind, "healthy call after the faulty one: %s [first call %s; fault %s at %s]", v.Msg, c.Call, spec.Name, c.Prog.placeName())
	}
	if x.Failed() || tg.pool == nil {
		return
	}
	// 3. the pool can still serve max simultaneous requests
	env.log.Reset()
	probeAll(x, tg, int(c.PoolMax), c.Healthy[1].Name, "after fault "+sigBase)
}

// probeAll starts max requests that all park inside rule `name`, which forces one request
// onto every instance of the pool, then releases them. A lost instance shows as a request
// that never reaches its gate.
func probeAll(x *Ctx, tg *schedTarget, max int, name string, what string) []gx.Result {
	return probeAllWith(x, tg, max, name, what)
}

func probeAllWith(x *Ctx, tg *schedTarget, max int, name string, what string) []gx.Result {
	g := tg.env.gatesForProbe()
	g.Set(name, obs.Hold, 0)
	results := make([]gx.Result, max)
	done := make(chan int, max)
	for i := 0; i < max; i++ {
		go func(i int) {
			results[i] = tg.invoke(gx.Call{Method: "ExecuteSelectedRules", Names: []string{name}})
			done <- i
		}(i)
	}
	deadline := time.After(hangBound())
	tick := time.NewTicker(200 * time.Microsecond)
	defer tick.Stop()
	arrived := false
	for !arrived {
		select {
		case <-tick.C:
			if int(g.InGate()) >= max {
				arrived = true
			}
		case <-deadline:
			n := g.InGate()
			g.ReleaseAll()
			hangExit(x, currentCaseJSON, fmt.Sprintf("pool of max %d: only %d of %d simultaneous requests reached their rule (%s): an instance was lost", max, n, max, what))
		}
	}
	g.ReleaseAll()
	for i := 0; i < max; i++ {
		select {
		case <-done:
		case <-time.After(hangBound()):
			hangExit(x, currentCaseJSON, "probe requests did not finish after release ("+what+")")
		}
	}
	for i, r := range results {
		if r.Err != nil || r.Panic != "" {
			x.Violation("probe-failed", "simultaneous probe request %d failed (%s): err=%v panic=%s", i, what, r.Err, r.Panic)
		}
	}
	return results
}

func init() {
	register(&Prop{
		ID:   "C09",
		Rule: "fault catalogue (type mismatches in arithmetic/comparison/logic, non-boolean if/else-if/for conditions, ! on non-boolean, missing variable/function (with and without arguments)/method (two- and three-level, with and without arguments)/field/object, nil-pointer field read/write/method, index out of range and negative (literal and variable, read and write, slice and array), string index on slice, wrong key kind, forRange over scalar/nil/missing, too few/many/ill-typed call arguments, panicking function/method/three-level call, unbounded for, zero divisors, unassignable targets, ill-typed stores into fields, elements and pointer-injected scalars, break/continue outside a loop, returning a value read from an unexported field) x placement (two failing children in one conc block, assignment right-hand side and target, if/else-if/for condition, for init/step, loop body, return, call argument, conc child, under 0-2 enclosing if/else/else-if/for/forRange) x every one of the 21 engine and 24 pool execute methods, the faulty rule at a generated priority among 2-4 healthy observer rules; oracle: the call returns within the bound without panic, the faulty rule does not run to its end, error and healthy rules obey the method's reference model, a later healthy call on the same engine/pool is clean and the pool still serves max simultaneous requests. Thorough enumerates the full product once, then samples. Non-trivial: fault outside the self-recovering constructs (assignment, calls) or a concurrent model; distinct by case hash",
		New:  func() interface{} { return &C09Case{} },
		Gen: func(t *rapid.T) interface{} {
			c := &C09Case{Prog: genFaultProgram(t, nil)}
			if pl := c.Prog.placeName(); (pl == "conc" || pl == "conc-assign" || pl == "conc-call-arg" || pl == "conc-stmt-call") && pct(t, "two_failing_children", 40) {
				c.Prog.Twice = true
			}
			c.Pool = rapid.Bool().Draw(t, "pool")
			ms := gx.MethodNames(c.Pool)
			c09Complete(t, c, ms[uni(t, "method", 0, len(ms)-1)])
			return c
		},
		Check: checkC09,
		Enum: func() []interface{} {
			var out []interface{}
			for f := range faultCatalogue {
				places := len(stmtPlaces)
				if faultCatalogue[f].Expr != nil {
					places = len(exprPlaces)
				}
				for pl := 0; pl < places; pl++ {
					for _, pool := range []bool{false, true} {
						for mi, method := range gx.MethodNames(pool) {
							fp := FaultProgram{Fault: f, Place: pl, Pre: 1, Post: 1}
							if (f+pl+mi)%3 == 1 {
								fp.Wraps = []int{(f + mi) % len(wrappers)}
							}
							if !fp.feasible() {
								continue
							}
							c := &C09Case{Prog: fp, Pool: pool, FaultSal: int64((f+mi)%5 - 1), PoolMin: 1, PoolMax: 2, EM: 1 + (f+pl+mi)%4}
							c.Healthy = []models.Rule{{Name: "h0", Sal: 2, Returns: true, RetVal: int64(1000)}, {Name: "h1", Sal: 0}, {Name: "h2", Sal: -1, Returns: true, RetVal: int64(1002)}}
							c.Call = enumCall(method, c.allRules(), f+pl+mi)
							out = append(out, c)
						}
					}
				}
			}
			return out
		},
	})
}

// enumCall builds deterministic arguments that schedule every rule.
func enumCall(method string, rules []models.Rule, salt int) gx.Call {
	m, _ := gx.Lookup(method)
	c := gx.Call{Method: method, B: salt%2 == 0}
	if m.Selected {
		for i := range rules {
			c.Names = append(c.Names, rules[(i+salt)%len(rules)].Name)
		}
	}
	if m.NM {
		c.N = 1 + salt%(len(rules)-1)
		c.M = len(rules) - c.N
	}
	if m.Shape == gx.ShDAG {
		c.DAG = [][]string{{rules[0].Name, faultyName}, {rules[1].Name}, {rules[2].Name}}
		if salt%2 == 1 {
			c.DAG = [][]string{{rules[0].Name}, {rules[1].Name, faultyName, rules[2].Name}}
		}
	}
	return c
}

func TestC09(t *testing.T) { runProp(t, "C09") }
