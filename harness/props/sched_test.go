package props

import (
	"fmt"
	"sort"
	"strings"
	"time"

	"github.com/bilibili/gengine/builder"
	"github.com/bilibili/gengine/context"
	"github.com/bilibili/gengine/engine"
	"pgregory.net/rapid"

	"verif/gx"
	"verif/models"
	"verif/obs"
)

// SchedCase is the common case shape of the scheduling properties (C04, C05, C12-C14):
// a rule set of standard observer bodies, how it is installed, one call, and a schedule
// (gate mode per rule).
type SchedCase struct {
	Rules   []models.Rule  `json:"rules"`
	Builds  [][]int        `json:"builds"`            // first group: full build; later groups: incremental builds; -(i+1) = an old version of rule i that a later group replaces
	OldSal  map[int]int64  `json:"old_sal,omitempty"` // salience of the old versions
	Pool    bool           `json:"pool,omitempty"`
	PoolMin int64          `json:"pool_min,omitempty"`
	PoolMax int64          `json:"pool_max,omitempty"`
	EM      int            `json:"em,omitempty"`
	Call    gx.Call        `json:"call"`
	Gates   map[string]int `json:"gates,omitempty"` // rule -> obs.Free / obs.Yield / obs.Hold
	QuiesMs int            `json:"quies_ms,omitempty"`
	// Removed rules are part of the full build and removed (RemoveRules) before the
	// incremental builds: they must never run, and the removal must not disturb what the
	// later incremental builds and the call do.
	Removed []models.Rule `json:"removed,omitempty"`
	// Prior, if set, is executed (ungated) on the same engine / pool before the call under
	// test: what a call does must not depend on how the engine was used before.
	Prior *gx.Call `json:"prior,omitempty"`
	// PriorFails: rules that fail in the earlier call only (pf(@name) panics for them while
	// the earlier call runs): a failure of an earlier call must leave nothing behind.
	PriorFails []string `json:"prior_fails,omitempty"`
	// PriorBuilds > 0: only the first PriorBuilds build groups are installed before the earlier
	// call; the remaining incremental builds follow between the earlier call and the call
	// under test (the builder is rebuilt between two executions on an engine that ran it).
	PriorBuilds int `json:"prior_builds,omitempty"`
	// FreshTag: the call under test gets a new stop-tag object (injected under the same name
	// on the same data context) instead of the reset object of the earlier call
	FreshTag bool `json:"fresh_tag,omitempty"`
	// PriorEM (pools): the execution model the pool is constructed with and serves the earlier
	// call in; SetExecModel(EM) follows before the call under test
	PriorEM int `json:"prior_em,omitempty"`
}

// genPrior draws, in a quarter of the cases, an earlier call of any execute method.
func genPrior(t *rapid.T, c *SchedCase) {
	if !pct(t, "prior", 25) && !(c.Pool && strings.Contains(c.Call.Method, "SpecifiedEM") && pct(t, "prior_for_pool_em", 50)) {
		return
	}
	ms := gx.MethodNames(c.Pool)
	name := ms[uni(t, "prior_method", 0, len(ms)-1)]
	idx := seqInts(len(c.Rules))
	sort.SliceStable(idx, func(i, j int) bool { return c.Rules[idx[i]].Sal > c.Rules[idx[j]].Sal })
	var names []string
	for _, i := range idx {
		names = append(names, c.Rules[i].Name)
	}
	if m, _ := gx.Lookup(name); m.NM && len(names) < 2 {
		name = "Execute"
	}
	call := fullCall(name, names, uni(t, "prior_salt", 0, 5))
	call.B = rapid.Bool().Draw(t, "prior_b")
	if pct(t, "prior_same_call", 45) {
		// exactly the call under test, issued once before
		call = c.Call
		call.Names = append([]string(nil), c.Call.Names...)
	}
	if len(c.Builds) >= 2 && pct(t, "prior_then_rebuild", 60) {
		c.PriorBuilds = uni(t, "prior_builds", 1, len(c.Builds)-1)
	}
	c.Prior = &call
	c.FreshTag = rapid.Bool().Draw(t, "fresh_tag")
	if c.Pool && (strings.Contains(c.Call.Method, "SpecifiedEM") || pct(t, "prior_em", 50)) {
		c.PriorEM = uni(t, "prior_em_model", 1, 4)
	}
	for i, r := range c.Rules {
		if pct(t, fmt.Sprintf("prior_fail%d", i), 30) {
			c.PriorFails = append(c.PriorFails, r.Name)
		}
	}
}

// ruleText renders the standard body.
func ruleText(r models.Rule) string {
	var b strings.Builder
	fmt.Fprintf(&b, "rule %q", r.Name)
	if !r.NoDesc {
		fmt.Fprintf(&b, " %q", "d_"+r.Name)
	}
	if !r.NoSal {
		fmt.Fprintf(&b, " salience %s", salText(r.Sal, r.SalZeros))
	}
	b.WriteString("\nbegin\n  pf(@name)\n  S(@name)\n  gate(@name)\n")
	eq := "="
	if r.TagDecl {
		eq = ":="
	}
	switch {
	case strings.HasPrefix(r.TagCond, "="):
		b.WriteString("  stag.StopTag " + eq + " " + r.TagCond[1:] + "\n")
	case r.TagCond != "":
		b.WriteString("  if " + r.TagCond + " {\n    stag.StopTag " + eq + " true\n  }\n")
	case r.SetsTag:
		b.WriteString("  stag.StopTag " + eq + " true\n")
	}
	if r.Fails {
		if r.FailKind > 0 && r.FailKind < len(failStmts) {
			b.WriteString("  FX(@name)\n  " + failStmts[r.FailKind] + "\n")
		} else {
			b.WriteString("  F(@name)\n")
		}
	}
	if r.Fails && r.FailKind > 0 && r.FailKind < len(failStmts) && strings.Contains(failStmts[r.FailKind], "return ") {
		// the failing statement is the rule's return: nothing may follow it
		b.WriteString("end\n")
		return b.String()
	}
	b.WriteString("  E(@name)\n")
	if r.Returns {
		b.WriteString("  return " + literal(r.RetVal) + "\n")
	}
	b.WriteString("end\n")
	return b.String()
}

// failStmts are the ways a failing rule fails after it has reported F: index 0 is the
// panicking injected function F itself, the others follow a non-panicking FX(@name).
var failStmts = []string{
	"",
	"O.Boom()",
	"O.In.Boom()",
	"zz = 1 / 0",
	"nofunc()",
	"zz = O.In.Boom()",
	"zz = nosuch + 1",
	"O.NilIn.Get()",
	"conc {\n    O.In.Boom()\n  }",
	"if 1 {\n    zz = 2\n  }",
	"sl[9] = 1",
	"zz = \"a\" * 2",
	// a failing conc child beside a sibling that is still busy (parked on its own Hold gate
	// "<rule>#c", reports CX when it ends): the rule is not over before the sibling is
	"conc {\n    O.In.Boom()\n    cgate(@name)\n  }",
	"conc {\n    cgate(@name)\n    zz = 1 / 0\n  }",
	// break / continue outside any loop make the rule fail
	"if tn == 1 {\n    break\n  }",
	"continue",
	// the rule reaches its return, but the value (read from an unexported field) cannot be handed out
	"zh = O.hid\n  return zh",
	// a failure whose error text is larger than 64 KB
	"bigboom()",
	// failures inside an else branch and inside an else-if condition
	"if ff {\n    zz = 1\n  } else {\n    O.Boom()\n  }",
	"if ff {\n    zz = 1\n  } else if nofunc() > 1 {\n    zz = 2\n  }",
}

// slowConcChild reports whether the failing statement of the rule has a gated conc sibling.
func slowConcChild(r models.Rule) bool {
	return r.Fails && r.FailKind > 0 && r.FailKind < len(failStmts) && strings.Contains(failStmts[r.FailKind], "cgate(")
}

// genBoolText renders a side-effect free boolean condition with the given value from
// literals, the injected constants tt / ff, comparisons, brackets, negated brackets and
// && / || whose operands are atoms or (negated) brackets.
func genBoolText(t *rapid.T, label string, want bool, depth int) string {
	atom := func(w bool, l string) string {
		ts := []string{"true", "tt", "!ff", "1 < 2", "tn == 1", "ts == \"s\"", "2.5 >= 2.5", "TRUE", "True", "!FALSE"}
		fs := []string{"false", "ff", "!tt", "2 < 1", "tn != 1", "ts == \"q\"", "2.5 > 3", "FALSE", "False", "!TRUE"}
		if w {
			return ts[uni(t, l, 0, len(ts)-1)]
		}
		return fs[uni(t, l, 0, len(fs)-1)]
	}
	if depth <= 0 {
		return atom(want, label+"a")
	}
	operand := func(w bool, l string) string {
		switch uni(t, l+"o", 0, 3) {
		case 0:
			return atom(w, l+"a")
		case 1:
			return "(" + genBoolText(t, l+"p", w, depth-1) + ")"
		default:
			return "!(" + genBoolText(t, l+"n", !w, depth-1) + ")"
		}
	}
	switch uni(t, label+"k", 0, 4) {
	case 0:
		return operand(want, label+"u")
	case 1, 2:
		// &&
		l, r := true, true
		if !want {
			switch uni(t, label+"f", 0, 2) {
			case 0:
				l = false
			case 1:
				r = false
			default:
				l, r = false, false
			}
		}
		return operand(l, label+"l") + " && " + operand(r, label+"r")
	default:
		l, r := false, false
		if want {
			switch uni(t, label+"f", 0, 2) {
			case 0:
				l = true
			case 1:
				r = true
			default:
				l, r = true, true
			}
		}
		return operand(l, label+"l") + " || " + operand(r, label+"r")
	}
}

// removedText renders the rules that are removed again right after the full build; their
// body reports STALE if it ever runs.
func removedText(rs []models.Rule) string {
	var b strings.Builder
	for _, r := range rs {
		fmt.Fprintf(&b, "rule %q %q salience %d\nbegin\n  S(@name)\n  STALE(@name)\n  E(@name)\nend\n", r.Name, "removed", r.Sal)
	}
	return b.String()
}

func removedNames(rs []models.Rule) []string {
	var out []string
	for _, r := range rs {
		out = append(out, r.Name)
	}
	return out
}

// salText spells a salience with leading zeros, which do not change its (decimal) value.
func salText(v int64, zeros int) string {
	s := fmt.Sprint(v)
	if zeros <= 0 {
		return s
	}
	z := strings.Repeat("0", zeros)
	if s[0] == '-' {
		return "-" + z + s[1:]
	}
	return z + s
}

func literal(v interface{}) string {
	switch x := v.(type) {
	case nil:
		return ""
	case string:
		return fmt.Sprintf("%q", x)
	case float64: // JSON round trip of integers
		return fmt.Sprintf("%d", int64(x))
	default:
		return fmt.Sprint(x)
	}
}

func rulesText(rs []models.Rule, idx []int) string {
	return rulesTextOld(rs, idx, nil)
}

// rulesTextOld also renders old versions (negative indexes): same name, other salience,
// a body that reports STALE if it ever runs.
func rulesTextOld(rs []models.Rule, idx []int, oldSal map[int]int64) string {
	var b strings.Builder
	for _, i := range idx {
		if i < 0 {
			r := rs[-i-1]
			fmt.Fprintf(&b, "rule %q %q salience %d\nbegin\n  S(@name)\n  STALE(@name)\n  E(@name)\nend\n", r.Name, "old", oldSal[-i-1])
			continue
		}
		b.WriteString(ruleText(rs[i]))
	}
	return b.String()
}

// schedEnv is the per-case observer.
type schedEnv struct {
	log    *obs.Log
	gates  *obs.Gates
	tag    *engine.Stag
	retLen int // length of the log when the last call returned
	// priorFails is non-empty only while the earlier call of a case runs
	priorFails map[string]bool
}

// gatesForProbe returns the Gates object the injected gate function is bound to, reset so
// that new Hold gates work after an earlier ReleaseAll.
func (e *schedEnv) gatesForProbe() *obs.Gates {
	e.gates.Reopen()
	return e.gates
}

func newSchedEnv() *schedEnv {
	l := &obs.Log{}
	return &schedEnv{log: l, gates: obs.NewGates(l), tag: &engine.Stag{}}
}

func (e *schedEnv) apis() map[string]interface{} {
	return map[string]interface{}{
		"S":     func(n string) { e.log.Add("S", n, 0) },
		"E":     func(n string) { e.log.Add("E", n, 0) },
		"F":     func(n string) { e.log.Add("F", n, 0); panic("injected failure in " + n) },
		"gate":  func(n string) { e.gates.Enter(n) },
		"STALE": func(n string) { e.log.Add("STALE", n, 0) },
		"FX":    func(n string) { e.log.Add("F", n, 0) },
		"cgate": func(n string) { e.gates.Enter(n + "#c"); e.log.Add("CX", n, 0) },
		"bigboom": func() { panic("a very long failure text: " + strings.Repeat("0123456789abcdef", 5000)) },
		"pf": func(n string) {
			if e.priorFails[n] {
				panic("injected failure in the earlier call")
			}
		},
		"O":     &FObj{V: 1, In: &FObj{V: 2}},
		"sl":    []int64{1, 2},
		"tt":    true,
		"ff":    false,
		"tn":    int64(1),
		"ts":    "s",
	}
}

// schedTarget is an installed rule set on an engine or a pool.
type schedTarget struct {
	pool *engine.GenginePool
	rb   *builder.RuleBuilder
	g    *engine.Gengine
	env  *schedEnv
}

// install builds the rule set as the case prescribes. An error means gengine rejected a
// text the generator considers valid (reported by the caller as a violation of C10-like
// totality, signature "install").
func install(c *SchedCase, env *schedEnv) (*schedTarget, error) {
	t := &schedTarget{env: env}
	if len(c.Builds) == 0 {
		return nil, fmt.Errorf("case without builds")
	}
	if c.Pool {
		em := c.EM
		if c.Prior != nil && c.PriorEM >= 1 && c.PriorEM <= 4 {
			em = c.PriorEM // the pool starts in another model and is switched after the earlier call
		}
		p, err := engine.NewGenginePool(c.PoolMin, c.PoolMax, em, rulesTextOld(c.Rules, c.Builds[0], c.OldSal)+removedText(c.Removed), env.apis())
		if err != nil {
			return nil, fmt.Errorf("NewGenginePool: %v", err)
		}
		if len(c.Removed) > 0 {
			if err := p.RemoveRules(removedNames(c.Removed)); err != nil {
				return nil, fmt.Errorf("pool RemoveRules: %v", err)
			}
		}
		t.pool = p
		return t, t.applyBuilds(c, 1, c.buildsBeforePrior())
	}
	dc := context.NewDataContext()
	for k, v := range env.apis() {
		dc.Add(k, v)
	}
	dc.Add("stag", env.tag)
	rb := builder.NewRuleBuilder(dc)
	if err := rb.BuildRuleFromString(rulesTextOld(c.Rules, c.Builds[0], c.OldSal) + removedText(c.Removed)); err != nil {
		return nil, fmt.Errorf("BuildRuleFromString: %v", err)
	}
	if len(c.Removed) > 0 {
		if err := rb.RemoveRules(removedNames(c.Removed)); err != nil {
			return nil, fmt.Errorf("RemoveRules: %v", err)
		}
	}
	t.rb = rb
	t.g = engine.NewGengine()
	return t, t.applyBuilds(c, 1, c.buildsBeforePrior())
}

// buildsBeforePrior is the number of build groups installed before the first call.
func (c *SchedCase) buildsBeforePrior() int {
	if c.Prior != nil && c.PriorBuilds > 0 && c.PriorBuilds < len(c.Builds) {
		return c.PriorBuilds
	}
	return len(c.Builds)
}

// applyBuilds performs the incremental build groups [from, to).
func (t *schedTarget) applyBuilds(c *SchedCase, from, to int) error {
	for _, grp := range c.Builds[from:to] {
		text := rulesTextOld(c.Rules, grp, c.OldSal)
		if t.pool != nil {
			if err := t.pool.UpdatePooledRulesIncremental(text); err != nil {
				return fmt.Errorf("UpdatePooledRulesIncremental: %v", err)
			}
		} else if err := t.rb.BuildRuleWithIncremental(text); err != nil {
			return fmt.Errorf("BuildRuleWithIncremental: %v", err)
		}
	}
	return nil
}

func (t *schedTarget) invoke(c gx.Call) gx.Result {
	if t.pool != nil {
		return gx.OnPool(t.pool, c, map[string]interface{}{"stag": t.env.tag}, t.env.tag)
	}
	return gx.OnEngine(t.g, t.rb, c, t.env.tag)
}

// runWithSchedule performs the call while a controller serves the Hold gates: whenever a
// rule parks, the controller waits for quiescence (so that a successor which is wrongly
// allowed to start does start and leaves its S event) and only then releases it.
func runWithSchedule(x *Ctx, t *schedTarget, c gx.Call, gates map[string]int, quies time.Duration) gx.Result {
	env := t.env
	for n, m := range gates {
		env.gates.Set(n, m, 3)
	}
	done := make(chan struct{})
	var res gx.Result
	go func() {
		defer close(done)
		res = t.invoke(c)
		env.retLen = env.log.Len()
	}()
	deadline := time.After(hangBound())
loop:
	for {
		select {
		case k := <-env.gates.Arrived():
			obs.Quiesce(env.log, quies, 50*quies)
			env.gates.Release(k)
		case <-done:
			break loop
		case <-deadline:
			env.gates.ReleaseAll()
			select {
			case <-done:
				break loop
			case <-time.After(2 * time.Second):
			}
			hangExit(x, currentCaseJSON, "call "+c.String()+" did not return")
		}
	}
	env.gates.ReleaseAll()
	return res
}

// ---------------------------------------------------------------------------------
// generators
// ---------------------------------------------------------------------------------

var salChoices = []int64{-3, -2, -1, 0, 0, 1, 1, 2, 2, 3, 5, 7}
var salExtremes = []int64{-9223372036854775808, 9223372036854775807, -2147483649, 4294967296, 100, -100}

func genSal(t *rapid.T, label string) int64 {
	if pct(t, label+"_x", 10) {
		return rapid.SampledFrom(salExtremes).Draw(t, label)
	}
	return rapid.SampledFrom(salChoices).Draw(t, label)
}

// genRules draws n rules with tie-prone saliences. failP, tagP, retP are percentages.
func genRules(t *rapid.T, minN, maxN int, failP, tagP, retP int) []models.Rule {
	// now and then a rule set far larger than the usual ones (sorting, searching and fan-out
	// code often switches algorithm or buffer at some size); few failing rules there
	if maxN >= 8 {
		big := 1
		if thorough() {
			big = 3
		}
		if pct(t, "big_rule_set", big) {
			minN = uni(t, "big_n", 40, 600)
			maxN = minN
			failP, tagP = 1, tagP/4
		}
	}
	n := 0
	if maxN >= 4 && minN < 3 && !pct(t, "few_rules", 12) {
		n = rapid.IntRange(3, maxN).Draw(t, "nrules")
	} else {
		n = rapid.IntRange(minN, maxN).Draw(t, "nrules")
	}
	numericNames := pct(t, "numeric_names", 20)
	rs := make([]models.Rule, n)
	for i := range rs {
		name := fmt.Sprintf("r%d", i)
		if numericNames {
			name = fmt.Sprintf("%d", 100+i)
		}
		switch {
		case pct(t, fmt.Sprintf("padname%d", i), 8):
			// blanks are part of a rule name: " r3" and "r3" are different names
			name = []string{" " + name, name + " ", " " + name + " "}[uni(t, fmt.Sprintf("padkind%d", i), 0, 2)]
		case pct(t, fmt.Sprintf("oddname%d", i), 6):
			name = []string{name + ".x", "R" + name, name + "-b", "规则" + name}[uni(t, fmt.Sprintf("oddkind%d", i), 0, 3)]
		}
		r := models.Rule{Name: name, Sal: genSal(t, fmt.Sprintf("sal%d", i))}
		if pct(t, fmt.Sprintf("nosal%d", i), 10) {
			r.NoSal, r.Sal = true, 0
		}
		r.NoDesc = pct(t, fmt.Sprintf("nodesc%d", i), 10)
		if !r.NoSal && pct(t, fmt.Sprintf("salzeros%d", i), 10) {
			r.SalZeros = uni(t, fmt.Sprintf("nsalzeros%d", i), 1, 2)
		}
		r.Fails = pct(t, fmt.Sprintf("fail%d", i), failP)
		if r.Fails && pct(t, fmt.Sprintf("failkind%d", i), 40) {
			r.FailKind = uni(t, fmt.Sprintf("fk%d", i), 1, len(failStmts)-1)
		}
		r.SetsTag = pct(t, fmt.Sprintf("tag%d", i), tagP)
		r.TagDecl = tagP > 0 && pct(t, fmt.Sprintf("tagdecl%d", i), 30)
		if tagP > 0 && r.SetsTag && pct(t, fmt.Sprintf("tagcond%d", i), 50) {
			r.TagCond = genBoolText(t, fmt.Sprintf("tc%d_", i), true, 3)
			if pct(t, fmt.Sprintf("tagassign%d", i), 35) {
				r.TagCond = "=" + r.TagCond
			}
		} else if tagP > 0 && !r.SetsTag && pct(t, fmt.Sprintf("notagcond%d", i), 8) {
			r.TagCond = genBoolText(t, fmt.Sprintf("tc%d_", i), false, 3)
		}
		if pct(t, fmt.Sprintf("ret%d", i), retP) {
			r.Returns = true
			r.RetVal = int64(1000 + i)
		}
		rs[i] = r
	}
	return rs
}

// genBuilds partitions rule indices into a full build followed by 0..3 incremental builds.
func genBuilds(t *rapid.T, n int) [][]int {
	perm := rapid.Permutation(seqInts(n)).Draw(t, "build_order")
	if n <= 1 || rapid.IntRange(0, 2).Draw(t, "incremental") == 0 {
		return [][]int{perm}
	}
	groups := rapid.IntRange(2, min(4, n)).Draw(t, "build_groups")
	out := make([][]int, groups)
	for i, p := range perm {
		g := i
		if i >= groups {
			g = rapid.IntRange(0, groups-1).Draw(t, fmt.Sprintf("grp%d", i))
		}
		out[g] = append(out[g], p)
	}
	return out
}

// pct is true with probability p percent; shrinks towards false.
// (rapid's integer generators are deliberately biased towards small values, so the
// percentage is composed from unbiased single-bit draws.)
func pct(t *rapid.T, label string, p int) bool {
	if p <= 0 {
		return false
	}
	if p >= 100 {
		return true
	}
	return bits(t, label, 7) >= 128-(p*128+50)/100
}

// bits draws an n-bit unsigned number from unbiased coin flips (shrinks towards 0).
func bits(t *rapid.T, label string, n int) int {
	v := 0
	for i := 0; i < n; i++ {
		v <<= 1
		if rapid.Bool().Draw(t, label) {
			v |= 1
		}
	}
	return v
}

// uni draws an (almost) uniformly distributed integer in [lo,hi].
func uni(t *rapid.T, label string, lo, hi int) int {
	n := hi - lo + 1
	if n <= 1 {
		return lo
	}
	nb := 1
	for (1 << nb) < n*8 {
		nb++
	}
	return lo + bits(t, label, nb)%n
}

// genBuildsReplacing is genBuilds where, in addition, some rules first exist in an old
// version (other or same salience) that a later incremental build replaces - in the same
// batch as additions and other replacements.
func genBuildsReplacing(t *rapid.T, c *SchedCase) {
	c.Builds = genBuilds(t, len(c.Rules))
	if pct(t, "removed", 25) {
		for i, n := 0, uni(t, "nremoved", 1, 2); i < n; i++ {
			c.Removed = append(c.Removed, models.Rule{Name: fmt.Sprintf("x%d", i), Sal: genSal(t, fmt.Sprintf("remsal%d", i))})
		}
	}
	if len(c.Builds) < 2 || !pct(t, "replacing", 70) {
		return
	}
	c.OldSal = map[int]int64{}
	for g := 1; g < len(c.Builds); g++ {
		for _, i := range c.Builds[g] {
			if !pct(t, fmt.Sprintf("old%d", i), 45) {
				continue
			}
			// an old version of rule i lives in an earlier group
			eg := uni(t, fmt.Sprintf("oldgrp%d", i), 0, g-1)
			c.Builds[eg] = append(c.Builds[eg], -i-1)
			if pct(t, fmt.Sprintf("oldsame%d", i), 35) {
				c.OldSal[i] = c.Rules[i].Sal
			} else {
				c.OldSal[i] = genSal(t, fmt.Sprintf("oldsal%d", i))
			}
		}
	}
}

func seqInts(n int) []int {
	s := make([]int, n)
	for i := range s {
		s[i] = i
	}
	return s
}

func genPoolSize(t *rapid.T, c *SchedCase) {
	sizes := [][2]int64{{1, 2}, {1, 3}, {2, 3}, {2, 4}, {3, 6}}
	s := rapid.SampledFrom(sizes).Draw(t, "pool_size")
	c.PoolMin, c.PoolMax = s[0], s[1]
	c.EM = rapid.IntRange(1, 4).Draw(t, "em")
}

// genNames draws a name list for selected variants: a permuted subset, optionally with
// unknown names, never with duplicates.
func genNames(t *rapid.T, rules []models.Rule, unknownP int) []string {
	return genNamesMin(t, rules, unknownP, 0)
}

func genNamesMin(t *rapid.T, rules []models.Rule, unknownP int, minK int) []string {
	perm := rapid.Permutation(seqInts(len(rules))).Draw(t, "name_perm")
	if minK > len(rules) {
		minK = len(rules)
	}
	k := rapid.IntRange(minK, len(rules)).Draw(t, "name_count")
	var names []string
	for _, i := range perm[:k] {
		names = append(names, rules[i].Name)
	}
	nu := 0
	for nu < 3 && pct(t, fmt.Sprintf("unk%d", nu), unknownP) {
		pos := rapid.IntRange(0, len(names)).Draw(t, fmt.Sprintf("unkpos%d", nu))
		u := fmt.Sprintf("zz%d", nu)
		if len(rules) > 0 && pct(t, fmt.Sprintf("unknear%d", nu), 40) {
			// an unknown name that differs from an existing one only by blanks or case
			base := rules[uni(t, fmt.Sprintf("unkbase%d", nu), 0, len(rules)-1)].Name
			cand := []string{strings.TrimSpace(base), " " + base, base + " ", strings.ToUpper(base)}[uni(t, fmt.Sprintf("unkshape%d", nu), 0, 3)]
			taken := false
			for _, r := range rules {
				if r.Name == cand {
					taken = true
				}
			}
			for _, n := range names {
				if n == cand {
					taken = true
				}
			}
			if !taken {
				u = cand
			}
		}
		names = append(names[:pos], append([]string{u}, names[pos:]...)...)
		nu++
	}
	return names
}

func ruleNames(rs []models.Rule) []string {
	out := make([]string, len(rs))
	for i, r := range rs {
		out[i] = r.Name
	}
	return out
}

func distinctSal(rs []models.Rule) int {
	m := map[int64]bool{}
	for _, r := range rs {
		m[r.Sal] = true
	}
	return len(m)
}

func min(a, b int) int {
	if a < b {
		return a
	}
	return b
}

// checkSched is the common oracle: install, run under the schedule, validate against the
// reference model. It returns the model input for property-specific extra clauses.
func checkSched(x *Ctx, c *SchedCase) (*models.Input, bool) {
	env := newSchedEnv()
	for _, r := range c.Rules {
		if r.Fails && r.FailKind > 0 {
			x.Class("failing-statement:" + strings.SplitN(failStmts[r.FailKind%len(failStmts)], "\n", 2)[0])
		}
		if r.NoSal {
			x.Class("rule-without-salience-clause")
		}
		if len(c.Removed) > 0 && len(c.Builds) > 1 {
			x.Class("remove-then-incremental-build")
		}
		if r.NoDesc {
			x.Class("rule-without-description")
		}
		if r.TagCond != "" {
			switch {
			case strings.HasPrefix(r.TagCond, "="):
				x.Class("tag-assigned-from-condition")
			case r.SetsTag:
				x.Class("tag-set-under-true-condition")
			default:
				x.Class("tag-store-under-false-condition")
			}
			if strings.Contains(r.TagCond, "!(") {
				x.Class("tag-condition-with-negated-bracket")
			}
		}
	}
	tg, err := install(c, env)
	if err != nil {
		x.Violation("install", "valid generated rule text was rejected: %v", err)
		return nil, false
	}
	q := time.Duration(c.QuiesMs) * time.Millisecond
	if q <= 0 {
		q = time.Millisecond
	}
	if c.Prior != nil {
		x.Class("engine-used-before-by:" + c.Prior.Method)
		if len(c.PriorFails) > 0 {
			x.Class("earlier-call-had-failing-rules")
			env.priorFails = map[string]bool{}
			for _, n := range c.PriorFails {
				env.priorFails[n] = true
			}
		}
		if pres := runWithSchedule(x, tg, *c.Prior, nil, q); pres.Panic != "" {
			x.Violation("prior-call-panic", "the earlier call %s panicked: %s", *c.Prior, truncate(pres.Panic, 300))
			return nil, false
		}
		env.priorFails = nil
		if n := c.buildsBeforePrior(); n < len(c.Builds) {
			x.Class("builder-rebuilt-incrementally-between-two-calls-on-the-same-engine")
			if c.Prior.Method == c.Call.Method {
				x.Class("same-call-again-after-an-incremental-rebuild")
			}
			if err := tg.applyBuilds(c, n, len(c.Builds)); err != nil {
				x.Violation("install", "valid generated rule text was rejected: %v", err)
				return nil, false
			}
		}
		if tg.pool != nil && c.PriorEM >= 1 && c.PriorEM <= 4 && c.PriorEM != c.EM {
			x.Class("pool-execution-model-switched-between-two-calls")
			if err := tg.pool.SetExecModel(c.EM); err != nil {
				x.Violation("install", "SetExecModel(%d) failed: %v", c.EM, err)
				return nil, false
			}
		}
		env.log.Reset()
		if c.FreshTag {
			// the second request brings its own stop-tag object under the same name
			x.Class("second-call-with-a-fresh-stop-tag-object-on-the-same-data-context")
			env.tag = &engine.Stag{}
			if tg.pool == nil {
				tg.rb.Dc.Add("stag", env.tag)
			}
		} else {
			env.tag.StopTag = false
		}
		env.gates.Reopen()
	}
	gates := c.Gates
	for _, r := range c.Rules {
		if slowConcChild(r) {
			if len(gates) == len(c.Gates) {
				gates = map[string]int{}
				for k, v := range c.Gates {
					gates[k] = v
				}
			}
			gates[r.Name+"#c"] = obs.Hold
		}
	}
	res := runWithSchedule(x, tg, c.Call, gates, q)
	for i, e := range env.log.Snapshot() {
		// a failing rule with a gated conc sibling: the sibling must have ended when the call returns
		if e.Kind == "F" && i < env.retLen {
			if r, ok := ruleByName(c.Rules, e.Name); ok && slowConcChild(r) {
				found := false
				for j, e2 := range env.log.Snapshot() {
					if e2.Kind == "CX" && e2.Name == e.Name && j < env.retLen {
						found = true
					}
				}
				if !found {
					x.Violation("conc-child-outlives-call", "rule %q failed inside a conc block and the call returned while a sibling statement of the block was still running [call %s]", e.Name, c.Call)
				}
			}
		}
	}
	in := &models.Input{Rules: c.Rules, Call: c.Call, EM: c.EM, Trace: env.log.Snapshot(), Err: res.Err != nil, Panic: res.Panic, Result: res.Map}
	m, _ := gx.Lookup(c.Call.Method)
	shape, _, _ := models.EffectiveShape(m, c.EM)
	for _, v := range models.Validate(*in) {
		x.Violation(v.Kind+"/"+shape, "%s [call %s]", v.Msg, c.Call)
	}
	for _, e := range in.Trace {
		if e.Kind == "STALE" {
			x.Violation("stale-version/"+shape, "the old version of rule %q ran although a later incremental build replaced it [call %s]", e.Name, c.Call)
			break
		}
	}
	if x.Failed() {
		x.Extra("trace", fmt.Sprint(in.Trace))
		if res.Err != nil {
			x.Extra("error", truncate(res.Err.Error(), 600))
		}
		x.Extra("result", fmt.Sprint(res.Map))
	}
	return in, true
}

func ruleByName(rs []models.Rule, n string) (models.Rule, bool) {
	for _, r := range rs {
		if r.Name == n {
			return r, true
		}
	}
	return models.Rule{}, false
}

func truncate(s string, n int) string {
	if len(s) > n {
		return s[:n] + "..."
	}
	return s
}
