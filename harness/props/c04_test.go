package props

import (
	"testing"

	"pgregory.net/rapid"

	"verif/gx"
)

// C04 - sort model: strict priority order, exactly once, documented error policy.
var c04Methods = []string{"Execute", "ExecuteSelectedRules", "ExecuteSelectedRulesWithControl", "ExecuteWithStopTagDirect", "ExecuteSelectedRulesWithControlAndStopTag", "ExecuteRulesWithSpecifiedEM", "ExecuteRulesWithMultiInputWithSpecifiedEM", "ExecuteSelectedWithSpecifiedEM"}

func init() {
	register(&Prop{
		ID:   "C04",
		Rule: "rule sets of 1-10 (thorough 16) observer rules with tie-prone/negative/extreme saliences, installed by a full build optionally followed by a removal of extra rules and by incremental builds; in a quarter of the cases an earlier call ran on the same engine / pool before (any method, or the call under test itself; rules may fail in that earlier call only; part of the incremental builds may lie between the two calls), random failing subset (a failing rule reports F and then fails through one of 12 statements (panicking function, method or three-level call - as statement, as assigned value, inside conc -, division by zero, missing function without arguments, missing name, nil receiver, non-boolean condition, out-of-range store, ill-typed arithmetic)), both flag values, sort-model entry points of engine and pool; oracle = reference sort predicate over the S/E/F trace, error and result map. Non-trivial: >=3 rules with >=2 distinct saliences; distinct by case hash",
		New:  func() interface{} { return &SchedCase{} },
		Gen: func(t *rapid.T) interface{} {
			c := &SchedCase{}
			maxN := 10
			if thorough() {
				maxN = 16
			}
			c.Rules = genRules(t, 1, maxN, 25, 6, 50)
			genBuildsReplacing(t, c)
			c.Pool = rapid.Bool().Draw(t, "pool")
			var names []string
			for _, n := range c04Methods {
				m, _ := gx.Lookup(n)
				if (c.Pool && m.OnPool) || (!c.Pool && m.OnEngine) {
					names = append(names, n)
				}
			}
			c.Call.Method = rapid.SampledFrom(names).Draw(t, "method")
			m, _ := gx.Lookup(c.Call.Method)
			if c.Pool {
				genPoolSize(t, c)
				if m.Shape == gx.ShByEM {
					c.EM = 1
				}
			}
			if m.HasB {
				c.Call.B = rapid.Bool().Draw(t, "b")
			}
			if m.Selected {
				c.Call.Names = genNames(t, c.Rules, 20)
			}
			genPrior(t, c)
			return c
		},
		Check: func(ci interface{}, x *Ctx) {
			c := ci.(*SchedCase)
			x.Class("method:" + c.Call.Method)
			if len(c.Builds) > 1 {
				x.Class("incremental-build")
			}
			if len(c.OldSal) > 0 {
				x.Class("incremental-build-replaces-old-versions")
			}
			nf := 0
			for i, r := range c.Rules {
				if r.Fails {
					nf++
					if i != len(c.Rules)-1 {
						x.Class("failing-not-last")
					}
				}
			}
			if nf > 0 {
				x.Class("has-failing")
			}
			if len(c.Rules) >= 3 && distinctSal(c.Rules) >= 2 {
				x.NonTrivial()
			}
			checkSched(x, c)
		},
	})
}

func TestC04(t *testing.T) { runProp(t, "C04") }
