package props

import (
	"fmt"
	"sort"
	"strings"
	"testing"

	"github.com/bilibili/gengine/builder"
	"github.com/bilibili/gengine/context"
	"github.com/bilibili/gengine/engine"
	"pgregory.net/rapid"

	"verif/obs"
)

// C08 - rule-set algebra: full build, incremental build and removal compose correctly.
type C08Rule struct {
	Name string `json:"name"`
	Sal  int64  `json:"sal"`
	Desc string `json:"desc"`
	// NoSal: the rule header has no salience clause (Sal is 0 then)
	NoSal bool `json:"nosal,omitempty"`
	// Zeros: leading zeros in the spelling of the salience
	Zeros int `json:"zeros,omitempty"`
	// LongDesc: the description is followed by that many further characters (one source line
	// of more than 64 KB)
	LongDesc int `json:"long_desc,omitempty"`
	// Empty (C08 only): the rule has an empty body; it exists, runs nothing, returns nothing
	// (its tag in the model is -1)
	Empty bool `json:"empty,omitempty"`
}

// c08WithEmpties marks about one rule in eight as empty-bodied.
func c08WithEmpties(t *rapid.T, pfx string, rs []C08Rule) []C08Rule {
	for i := range rs {
		if pct(t, fmt.Sprintf("%sempty%d", pfx, i), 12) {
			rs[i].Empty = true
		}
	}
	return rs
}

func (r C08Rule) desc() string { return r.Desc + strings.Repeat("x", r.LongDesc) }

type C08Op struct {
	Kind   string    `json:"kind"` // full | incr | remove | refull / reincr (the byte-identical text of the last full / incremental build again)
	Rules  []C08Rule `json:"rules,omitempty"`
	Remove []string  `json:"remove,omitempty"`
	// badincr / badfull: Rules are complete valid rules, followed by a tail that makes the whole
	// text invalid (Bad: 0 = the last rule once more (duplicate name), 1 = a rule with a syntax
	// error, 2 = a character the lexer cannot tokenise).
	// The call must fail and leave the installed set - and everything later calls do - untouched.
	Bad int `json:"bad,omitempty"`
}

type C08Case struct {
	Ops []C08Op `json:"ops"`
}

// blanks are part of a name: "n0" and " n0", "n7" and "n7 " are different rules
var c08Universe = []string{"n0", "n1", "n2", "n3", "n4", "n5", "n6", "n7", " n0", "n7 "}

type c08Entry struct {
	sal  int64
	desc string
	tag  int64
}

func c08Text(rules []C08Rule, tagBase int64) (string, map[string]int64) {
	var b strings.Builder
	tags := map[string]int64{}
	for i, r := range rules {
		tag := tagBase + int64(i)
		tags[r.Name] = tag
		sal := " salience " + salText(r.Sal, r.Zeros)
		if r.NoSal {
			sal = ""
		}
		if r.Empty {
			tags[r.Name] = -1
			fmt.Fprintf(&b, "rule %q %q%s\nbegin\nend\n", r.Name, r.desc(), sal)
			continue
		}
		fmt.Fprintf(&b, "rule %q %q%s\nbegin\n  S(@name)\n  info(@name, @sal, @desc)\n  return %d\nend\n", r.Name, r.desc(), sal, tag)
	}
	return b.String(), tags
}

func genC08Rules(t *rapid.T, pfx string, step int) []C08Rule {
	n := uni(t, pfx+"n", 1, 5)
	perm := rapid.Permutation(c08Universe).Draw(t, pfx+"names")
	var out []C08Rule
	for i := 0; i < n; i++ {
		sal := int64(uni(t, fmt.Sprintf("%ssal%d", pfx, i), -1, 3))
		if pct(t, fmt.Sprintf("%sext%d", pfx, i), 6) {
			sal = salExtremes[uni(t, fmt.Sprintf("%sextv%d", pfx, i), 0, len(salExtremes)-1)]
		}
		r := C08Rule{Name: perm[i], Sal: sal, Desc: fmt.Sprintf("d%d_%d", step, i)}
		if pct(t, fmt.Sprintf("%snosal%d", pfx, i), 12) {
			r.NoSal, r.Sal = true, 0
		} else if pct(t, fmt.Sprintf("%szeros%d", pfx, i), 12) {
			r.Zeros = uni(t, fmt.Sprintf("%snzeros%d", pfx, i), 1, 2)
		}
		if pct(t, fmt.Sprintf("%slongdesc%d", pfx, i), 1) {
			r.LongDesc = uni(t, fmt.Sprintf("%slongdesclen%d", pfx, i), 66000, 140000)
		}
		out = append(out, r)
	}
	return out
}

func init() {
	register(&Prop{
		ID:   "C08",
		Rule: "operation histories of up to 25 steps on one RuleBuilder: BuildRuleFromString / BuildRuleWithIncremental with 1-5 rules per call over a universe of 8 names and saliences -1..3 (new names, same name same salience, same name changed salience, ties, several rules per call) and RemoveRules with 1-4 names (present, absent, empty list), rejected incremental and full builds whose text holds complete valid rules before the error (duplicate name, syntax error, untokenisable character), re-submission of the byte-identical text of the last full or last incremental build; every rule body reports its compile-time @sal/@desc and returns a tag fresh per (name, build), about one rule in eight has an empty body instead (it exists, runs nothing and returns nothing); oracle = model map name -> (salience, description, tag): after every step the sort model must run exactly the model's rules, each once, in non-increasing order of the current saliences, returning the current tags and reporting the current salience/description, IsExist over the whole universe must agree, and the empty set must report 'no rule' without running anything. Non-trivial: the history changes the salience of an existing rule and later performs another incremental build, or >= 2 incremental builds touch one tie group; distinct by case hash",
		New:  func() interface{} { return &C08Case{} },
		Gen: func(t *rapid.T) interface{} {
			c := &C08Case{}
			n := uni(t, "nops", 1, 25)
			if !thorough() {
				n = uni(t, "nops_quick", 1, 14)
			}
			for i := 0; i < n; i++ {
				pfx := fmt.Sprintf("op%d_", i)
				switch k := uni(t, pfx+"kind", 0, 9); {
				case i == 0 && pct(t, "first_op_incremental", 35):
					// the history of a fresh builder starts with an incremental build
					c.Ops = append(c.Ops, C08Op{Kind: "incr", Rules: c08WithEmpties(t, pfx, genC08Rules(t, pfx, i))})
				case k <= 1 || i == 0:
					c.Ops = append(c.Ops, C08Op{Kind: "full", Rules: c08WithEmpties(t, pfx, genC08Rules(t, pfx, i))})
				case k == 2:
					if pct(t, pfx+"re_incr", 60) {
						c.Ops = append(c.Ops, C08Op{Kind: "reincr"})
					} else {
						c.Ops = append(c.Ops, C08Op{Kind: "refull"})
					}
				case k == 3 && pct(t, pfx+"bad", 70):
					kind := "badincr"
					if pct(t, pfx+"badfull", 25) {
						kind = "badfull"
					}
					c.Ops = append(c.Ops, C08Op{Kind: kind, Rules: c08WithEmpties(t, pfx, genC08Rules(t, pfx, i)), Bad: uni(t, pfx+"badkind", 0, 2)})
				case k <= 6:
					c.Ops = append(c.Ops, C08Op{Kind: "incr", Rules: c08WithEmpties(t, pfx, genC08Rules(t, pfx, i))})
				default:
					nr := uni(t, pfx+"nrem", 0, 4)
					perm := rapid.Permutation(c08Universe).Draw(t, pfx+"rem")
					c.Ops = append(c.Ops, C08Op{Kind: "remove", Remove: perm[:nr]})
				}
			}
			return c
		},
		Check: func(ci interface{}, x *Ctx) {
			c := ci.(*C08Case)
			log := &obs.Log{}
			dc := context.NewDataContext()
			dc.Add("S", func(n string) { log.Add("S", n, 0) })
			dc.Add("info", func(n string, sal int64, desc string) { log.Add("I", n+"|"+desc, sal) })
			rb := builder.NewRuleBuilder(dc)
			model := map[string]c08Entry{}
			salChanged := false
			tieTouches := map[int64]int{}
			var lastFullText string
			var lastFullRules []C08Rule
			var lastFullTags map[string]int64
			var lastIncrText string
			var lastIncrRules []C08Rule
			var lastIncrTags map[string]int64
			changedSinceIncr := false
			for step, op := range c.Ops {
				var err error
				var pan string
				switch op.Kind {
				case "refull":
					if lastFullText == "" {
						continue
					}
					changedSinceIncr = true
					x.Class("identical-full-text-resubmitted")
					text, tags := lastFullText, lastFullTags
					err, pan = guard(func() error { return rb.BuildRuleFromString(text) })
					if err == nil {
						model = map[string]c08Entry{}
						for _, r := range lastFullRules {
							model[r.Name] = c08Entry{r.Sal, r.desc(), tags[r.Name]}
						}
					}
				case "reincr":
					if lastIncrText == "" {
						// no incremental build yet: nothing to resubmit, the step is a no-op
						continue
					}
					x.Class("identical-incr-text-resubmitted")
					if changedSinceIncr {
						x.Class("identical-incr-text-after-other-change")
					}
					text, tags := lastIncrText, lastIncrTags
					err, pan = guard(func() error { return rb.BuildRuleWithIncremental(text) })
					if err == nil {
						for _, r := range lastIncrRules {
							model[r.Name] = c08Entry{r.Sal, r.desc(), tags[r.Name]}
						}
					}
				case "full":
					changedSinceIncr = true
					text, tags := c08Text(op.Rules, int64(step*100))
					lastFullText, lastFullRules, lastFullTags = text, op.Rules, tags
					err, pan = guard(func() error { return rb.BuildRuleFromString(text) })
					if err == nil {
						model = map[string]c08Entry{}
						for _, r := range op.Rules {
							model[r.Name] = c08Entry{r.Sal, r.desc(), tags[r.Name]}
						}
					}
				case "incr":
					text, tags := c08Text(op.Rules, int64(step*100))
					lastIncrText, lastIncrRules, lastIncrTags = text, op.Rules, tags
					changedSinceIncr = false
					for _, r := range op.Rules {
						old, ok := model[r.Name]
						switch {
						case !ok:
							x.Class("incr-adds-new-name")
						case old.sal == r.Sal:
							x.Class("incr-replaces-same-salience")
						default:
							x.Class("incr-changes-salience")
							salChanged = true
						}
						cnt := 0
						for _, e := range model {
							if e.sal == r.Sal {
								cnt++
							}
						}
						if cnt >= 1 {
							tieTouches[r.Sal]++
							if tieTouches[r.Sal] >= 2 {
								x.Class("tie-group-touched-twice")
								x.NonTrivial()
							}
						}
					}
					if salChanged && step > 0 {
						x.NonTrivial()
					}
					err, pan = guard(func() error { return rb.BuildRuleWithIncremental(text) })
					if err == nil {
						for _, r := range op.Rules {
							model[r.Name] = c08Entry{r.Sal, r.desc(), tags[r.Name]}
						}
					}
				case "badincr", "badfull":
					text, _ := c08Text(op.Rules, int64(step*100))
					last := op.Rules[len(op.Rules)-1]
					switch op.Bad {
					case 0:
						dup, _ := c08Text([]C08Rule{last}, int64(step*100+50))
						text += dup
					case 1:
						text += "rule \"zz_syntax\" \"d\" salience 1\nbegin\n  x = \nend\n"
					case 2:
						text += "rule \"zz_lexer\" # \"d\" salience 1\nbegin\n  return 1\nend\n"
					default:
						text += "rule \"zz_overflow\" \"d\" salience 99999999999999999999\nbegin\n  return 1\nend\n"
					}
					x.Class("rejected-" + op.Kind + "-with-complete-rules-before-the-error")
					if op.Kind == "badincr" {
						err, pan = guard(func() error { return rb.BuildRuleWithIncremental(text) })
					} else {
						err, pan = guard(func() error { return rb.BuildRuleFromString(text) })
					}
					if err == nil && pan == "" {
						x.Violation("bad-text-accepted:"+op.Kind, "step %d: an invalid text (tail kind %d) was accepted\n%s\nhistory %s", step, op.Bad, text, jsonStr(c.Ops[:step+1]))
						return
					}
					err = nil // the rejection is the expected outcome; the set must be unchanged
				case "remove":
					changedSinceIncr = true
					err, pan = guard(func() error { return rb.RemoveRules(op.Remove) })
					if len(op.Remove) == 0 {
						x.Class("remove-empty-list")
						if err == nil && pan == "" {
							// an empty removal may be accepted or rejected; the set must not change
						}
					} else if err == nil {
						for _, n := range op.Remove {
							if _, ok := model[n]; ok {
								x.Class("remove-existing")
							} else {
								x.Class("remove-absent")
							}
							delete(model, n)
						}
					}
				}
				hist := func() string { return jsonStr(c.Ops[:step+1]) }
				if pan != "" {
					x.Violation("panic:"+op.Kind, "step %d (%s) panicked: %s\nhistory %s", step, op.Kind, truncate(pan, 200), hist())
					return
				}
				if err != nil && !(op.Kind == "remove" && len(op.Remove) == 0) {
					x.Violation("op-rejected:"+op.Kind, "step %d (%s) returned an error for a valid operation: %v\nhistory %s", step, op.Kind, err, hist())
					return
				}
				// observe
				log.Reset()
				g := engine.NewGengine()
				var eerr error
				_, pan = guard(func() error { eerr = g.Execute(rb, true); return nil })
				if pan != "" {
					x.Violation("panic:execute-after-"+op.Kind, "Execute after step %d (%s) panicked: %s\nhistory %s", step, op.Kind, truncate(pan, 200), hist())
					return
				}
				res, _ := g.GetRulesResultMap()
				var started []string
				info := map[string]string{}
				for _, e := range log.Snapshot() {
					if e.Kind == "S" {
						started = append(started, e.Name)
					}
					if e.Kind == "I" {
						info[strings.SplitN(e.Name, "|", 2)[0]] = fmt.Sprintf("%d|%s", e.Arg, strings.SplitN(e.Name, "|", 2)[1])
					}
				}
				sig := "after-" + op.Kind
				if len(model) == 0 {
					x.Class("empty-set")
					if eerr == nil || len(started) > 0 {
						x.Violation("empty-set:"+sig, "step %d: the installed set is empty, execution must report an error and run nothing; err=%v started=%v\nhistory %s", step, eerr, started, hist())
						return
					}
				} else if eerr != nil {
					x.Violation("exec-error:"+sig, "step %d: executing the installed set failed: %v\nhistory %s", step, eerr, hist())
					return
				}
				cnt := map[string]int{}
				for _, n := range started {
					cnt[n]++
				}
				var want []string
				for n := range model {
					want = append(want, n)
				}
				sort.Strings(want)
				for _, n := range want {
					if model[n].tag == -1 {
						x.Class("installed-set-holds-an-empty-bodied-rule")
						if cnt[n] != 0 || res[n] != nil {
							x.Violation("set:"+sig, "step %d: rule %q has an empty body but started %d times / returned %v\nhistory %s", step, n, cnt[n], res[n], hist())
							return
						}
						continue
					}
					if cnt[n] != 1 {
						x.Violation("set:"+sig, "step %d: rule %q ran %d times, the denoted set is %v, started %v\nhistory %s", step, n, cnt[n], want, started, hist())
						return
					}
				}
				for n := range cnt {
					if _, ok := model[n]; !ok {
						x.Violation("resurrected:"+sig, "step %d: rule %q ran but is not in the denoted set %v\nhistory %s", step, n, want, hist())
						return
					}
				}
				for i := 1; i < len(started); i++ {
					if model[started[i-1]].sal < model[started[i]].sal {
						x.Violation("order:"+sig, "step %d: rules ran as %v but current saliences are %v\nhistory %s", step, started, salsOf(model, started), hist())
						return
					}
				}
				for n, e := range model {
					if e.tag == -1 {
						continue
					}
					if fmt.Sprint(res[n]) != fmt.Sprint(e.tag) {
						x.Violation("body:"+sig, "step %d: rule %q returned %v, its current version returns %d\nhistory %s", step, n, res[n], e.tag, hist())
						return
					}
					if info[n] != fmt.Sprintf("%d|%s", e.sal, e.desc) {
						x.Violation("meta:"+sig, "step %d: rule %q reports salience|description %q, want %d|%s\nhistory %s", step, n, info[n], e.sal, e.desc, hist())
						return
					}
				}
				var ex []bool
				if _, qpan := guard(func() error { ex = rb.IsExist(c08Universe); return nil }); qpan != "" {
					x.Violation("panic:isexist", "IsExist after step %d (%s) panicked: %s\nhistory %s", step, op.Kind, truncate(qpan, 200), hist())
					return
				}
				for i, n := range c08Universe {
					_, ok := model[n]
					if ex[i] != ok {
						x.Violation("isexist:"+sig, "step %d: IsExist(%q)=%v, want %v\nhistory %s", step, n, ex[i], ok, hist())
						return
					}
				}
			}
		},
	})
}

func salsOf(m map[string]c08Entry, names []string) []int64 {
	out := make([]int64, len(names))
	for i, n := range names {
		out[i] = m[n].sal
	}
	return out
}

func TestC08(t *testing.T) { runProp(t, "C08") }
