package props

import (
	"fmt"
	"os"
	"path/filepath"
	"runtime"
	"sync"
	"sync/atomic"
	"syscall"
	"testing"
	"time"

	"github.com/bilibili/gengine/engine"
	"pgregory.net/rapid"

	"verif/gx"
)

// C17 - pool capacity: at most max in flight, waiters proceed, instances are never lost.
type C17Op struct {
	Kind   string `json:"kind"` // start | release | clear (ClearPoolRules) | restore (UpdatePooledRules with the same rules)
	Fault  int64  `json:"fault,omitempty"`
	Method int    `json:"method,omitempty"`
	K      int    `json:"k,omitempty"`
}

type C17Case struct {
	PoolMin int64     `json:"pool_min"`
	PoolMax int64     `json:"pool_max"`
	EM      int       `json:"em"`
	Ops     []C17Op   `json:"ops"`
	Storm   *C17Storm `json:"storm,omitempty"`
	// Hammer: Clients goroutines issue Reqs short ungated requests each (the free lists are
	// popped and refilled as fast as the pool can), then max requests must still be able to
	// be inside their rule together.
	Hammer *C17Hammer `json:"hammer,omitempty"`
	// Slow: max requests stay inside their rule for HoldMs of wall-clock time while Waiters more
	// requests wait for an instance; then all are let go.
	Slow *C17Slow `json:"slow,omitempty"`
	// Two: two pools alive at once; pool A is saturated with Two.Waiters waiting requests while
	// pool B (1,2) hands an instance to its own waiter
	Two *C17Two `json:"two,omitempty"`
}

type C17Two struct {
	Waiters int `json:"waiters"`
	Method  int `json:"method"`
}

type C17Slow struct {
	HoldMs  int `json:"hold_ms"`
	Waiters int `json:"waiters"`
	Method  int `json:"method"`
}

type C17Hammer struct {
	Clients int `json:"clients"`
	Reqs    int `json:"reqs"`
	Salt    int `json:"salt"`
}

// C17Storm is a chain of hand-overs on a saturated pool: max-1 requests stay inside their rule
// for the whole case, the last instance is passed along H1, H2, ...: H(n+1) is issued at the
// moment Hn is let go, Offset(n) spin iterations later, so that it looks for an instance while
// Hn's instance travels back. Whatever the interleaving, H(n+1) must enter its rule.
type C17Storm struct {
	N      int `json:"n"`
	Seed   int `json:"seed"`
	Step   int `json:"step"`
	KMax   int `json:"kmax"`
	Method int `json:"method"`
}

func (s *C17Storm) offset(n int) int { return ((n + s.Seed) * s.Step) % s.KMax }

const c17StormRules = `
rule "hold" "d" salience 10
begin
  hold(who.Id)
  ix = 1
  vv = who.Sl[ix]
  return vv
end
rule "aux" "d" salience 1
begin
  return 0
end
`

const c17Rules = `
rule "main" "d" salience 10
begin
  S(@name)
  lit(4, 5, 6)
  conc {
    failif(who.Kind)
    gatei(who.Id)
  }
  loc = who.Id
  who.M["k"] = loc
  who.Sl[1] = loc
  ix = 1
  vv = who.Sl[ix]
  same(vv, loc)
  same(who.M["k"] + who.Sl[ix] * 2, loc * 3)
  if who.Kind == 13 {
    zz = who.MU[1]
  }
  if who.Kind == 1 {
    zz = 1 / 0
  }
  if who.Kind == 5 {
    who.NilM["k"] = 1
  }
  if who.Kind == 6 {
    who.M[5] = 1
  }
  if who.Kind == 7 {
    who.Sl[9] = 1
  }
  if who.Kind == 8 {
    zz = who.NilM["k"] + who.Sl[7]
  }
  if who.Kind == 2 {
    boom()
  }
  if who.Kind == 3 {
    if who.Id {
      zz = 1
    }
  }
  if who.Kind == 4 {
    zz = nosuch.F + 1
  }
  return loc
end
rule "aux" "d" salience 1
begin
  same(who.Id, who.Id)
  return 0
end
`

func init() {
	register(&Prop{
		ID:   "C17",
		Rule: "request histories on pools of size (1,2),(1,3),(2,3),(2,4),(3,6): start request (healthy / rule error / panicking injected function / type fault outside the self-recovering constructs / missing name / store into a nil map / wrong key kind / out-of-range element store and read / an integer literal key on a uint8-keyed map (kind 13) / a healthy request whose data map also holds a nil value and an empty key (kind 12) / a request with a nil data map (kind 11, fails on the missing names without parking) / a failing child of the conc block in which every request parks (kind 10) / a healthy request that injects its own function, map and slice under names and Go types of values the pool was constructed with; every request also binds a local, writes its own map and slice, reads the slice through a variable index and passes an expression over its own map and slice elements to a comparing function) through any of the 24 pool execute methods, release the k-th outstanding request; up to max+4 outstanding, every request parks inside its rule on a Hold gate keyed by its id; oracle after every step: the number of requests parked inside rules equals min(max, outstanding) within the bound (waiters proceed, nothing lost) and never exceeds max, every finished request returned its own id (two in-flight requests on one instance would overwrite each other's injected object), a request never fails because the pool is busy, and after the history max requests park simultaneously again. 8% of the cases (1% in the thorough tier) are hand-over storms instead: max-1 requests stay inside their rule, the last instance is passed along a chain of 100-800 (thorough 1500) requests, each issued a generated number of spin iterations after its predecessor is let go (at most four storms at a time across the shard processes); every next request must enter its rule within the hang bound after the previous one returned and must return its own id. 3% of the cases (1% in the thorough tier) are hammers: 4-32 clients issue 100-600 (thorough 1500) short ungated requests each, at most max may be inside a rule at any time, every request returns its own id, and afterwards max requests must be inside their rule together, three times in a row; pool sizes include (40,41), (33,34), (2,65), (31,33). 2% of the cases keep two pools alive at once: one is saturated with 1-9 waiting requests while the other (1,2) hands an instance back to its own waiter, which must proceed. 1% of the cases (0.3% in the thorough tier) are long saturations: max requests stay inside their rule for 2.2-7.5 s of wall-clock time while 1-3 more requests wait; no waiter may start or fail meanwhile, afterwards every request returns its own id, the waiters proceed and max requests park together again. Non-trivial: at some point more than max requests are outstanding and a failing or panicking request finished before the final probe, or a storm of >= 300 hand-overs, or a hammer, or a long saturation; distinct by case hash",
		New:  func() interface{} { return &C17Case{} },
		Gen: func(t *rapid.T) interface{} {
			c := &C17Case{}
			sizes := [][2]int64{{1, 2}, {1, 3}, {2, 3}, {2, 4}, {3, 6}}
			s := sizes[uni(t, "pool_size", 0, len(sizes)-1)]
			c.PoolMin, c.PoolMax = s[0], s[1]
			c.EM = uni(t, "em", 1, 4)
			hammerPct := 3
			if thorough() {
				hammerPct = 1 // like the storms, hammers run four at a time and cost seconds each
			}
			if pct(t, "hammer", hammerPct) {
				sizes := [][2]int64{{1, 4}, {1, 3}, {2, 4}, {1, 2}, {40, 41}, {33, 34}, {2, 65}, {31, 33}}
				sz := sizes[uni(t, "hammer_size", 0, 7)]
				c.PoolMin, c.PoolMax = sz[0], sz[1]
				hi := 600
				if thorough() {
					hi = 1500
				}
				c.Hammer = &C17Hammer{Clients: uni(t, "hammer_clients", 4, 32), Reqs: uni(t, "hammer_reqs", 100, hi), Salt: uni(t, "hammer_salt", 0, 999)}
				if c.PoolMax > 8 {
					// large pools: fewer short requests, the waves of max simultaneous requests matter
					c.Hammer.Reqs = uni(t, "hammer_reqs_big", 5, 60)
				}
				return c
			}
			if pct(t, "two_pools", 2) {
				sizes := [][2]int64{{1, 2}, {1, 3}, {2, 3}}
				sz := sizes[uni(t, "two_size", 0, 2)]
				c.PoolMin, c.PoolMax = sz[0], sz[1]
				c.Two = &C17Two{Waiters: uni(t, "two_waiters", 1, 9), Method: uni(t, "two_m", 0, 23)}
				return c
			}
			if pct(t, "slow", 1) && (!thorough() || pct(t, "slow_thorough", 30)) {
				sizes := [][2]int64{{1, 2}, {1, 3}, {2, 3}}
				sz := sizes[uni(t, "slow_size", 0, 2)]
				c.PoolMin, c.PoolMax = sz[0], sz[1]
				c.Slow = &C17Slow{HoldMs: uni(t, "slow_hold_ms", 2200, 7500), Waiters: uni(t, "slow_waiters", 1, 3), Method: uni(t, "slow_m", 0, 23)}
				return c
			}
			stormPct := 8
			if thorough() {
				// a storm costs about a second of wall time under load and only four run at a time
				stormPct = 1
			}
			if pct(t, "storm", stormPct) {
				c.PoolMin, c.PoolMax = 1, int64(uni(t, "storm_max", 2, 3))
				hi := 800
				if thorough() {
					hi = 1500
				}
				c.Storm = &C17Storm{N: uni(t, "storm_n", 100, hi), Seed: uni(t, "storm_seed", 0, 9999), Step: []int{97, 37, 193, 11, 389}[uni(t, "storm_step", 0, 4)],
					KMax: []int{2000, 8000, 20000, 50000}[uni(t, "storm_kmax", 0, 3)], Method: uni(t, "storm_m", 0, 23)}
				return c
			}
			n := uni(t, "nops", 3, 24)
			out := 0
			for i := 0; i < n; i++ {
				if pct(t, fmt.Sprintf("mgmt%d", i), 7) {
					c.Ops = append(c.Ops, C17Op{Kind: []string{"clear", "restore"}[uni(t, fmt.Sprintf("mgmtkind%d", i), 0, 1)]})
					continue
				}
				if out > 0 && (out >= int(c.PoolMax)+4 || pct(t, fmt.Sprintf("rel%d", i), 40)) {
					c.Ops = append(c.Ops, C17Op{Kind: "release", K: uni(t, fmt.Sprintf("k%d", i), 0, out-1)})
					out--
					continue
				}
				f := int64(0)
				if pct(t, fmt.Sprintf("faulty%d", i), 40) {
					f = int64(uni(t, fmt.Sprintf("fault%d", i), 1, 13))
				}
				c.Ops = append(c.Ops, C17Op{Kind: "start", Fault: f, Method: uni(t, fmt.Sprintf("m%d", i), 0, 23)})
				out++
			}
			return c
		},
		Check: func(ci interface{}, x *Ctx) {
			c := ci.(*C17Case)
			if c.Storm != nil {
				checkC17Storm(c, x)
				return
			}
			if c.Hammer != nil {
				checkC17Hammer(c, x)
				return
			}
			if c.Slow != nil {
				checkC17Slow(c, x)
				return
			}
			if c.Two != nil {
				checkC17Two(c, x)
				return
			}
			h := newPoolHarness()
			h.max = int(c.PoolMax)
			// fault kind 9 is a healthy request that injects its own function, map and slice under
			// the names (and with the Go types) of values the pool was constructed with; no rule
			// uses those names
			apis := h.apis()
			apis["cb"] = func(v int64) int64 { return v }
			apis["cbm"] = map[string]int64{"a": 1}
			apis["cbs"] = []int64{1}
			h.extraData = func(id, kind int64) map[string]interface{} {
				if kind != 9 {
					return nil
				}
				return map[string]interface{}{"cb": func(v int64) int64 { return v + id }, "cbm": map[string]int64{"id": id}, "cbs": []int64{id}}
			}
			p, err := engine.NewGenginePool(c.PoolMin, c.PoolMax, c.EM, c17Rules, apis)
			if err != nil {
				x.Violation("setup", "NewGenginePool: %v", err)
				return
			}
			h.pool = p
			defer h.gates.ReleaseAll()
			methods := gx.MethodNames(true)
			nextID := int64(100)
			overCap, faultDone := false, false
			cleared := false
			epoch := 0
			startEpoch := map[int64]int{}
			startCleared := map[int64]bool{}
			checkReq := func(r *poolReq, step int) bool {
				if r.res.Panic != "" {
					x.Violation("request-panic", "step %d: request %d (%s, fault kind %d) panicked: %s", step, r.id, r.call.Method, r.kind, truncate(r.res.Panic, 200))
					return false
				}
				if startEpoch[r.id] != epoch || startCleared[r.id] {
					// the request overlapped a clear / restore (or started on a cleared pool): it may
					// have run the rules, run nothing (empty map, nil error) or failed with "no rule";
					// only its own id may ever appear
					x.Class("request-overlapping-clear-or-restore")
					if v, ok := r.res.Map["main"]; ok && fmt.Sprint(v) != fmt.Sprint(r.id) {
						x.Violation("foreign-id", "step %d: request %d got %v from its rule", step, r.id, v)
						return false
					}
					if r.kind != 0 && r.kind != 9 && r.kind != 12 && r.kind != 13 {
						faultDone = true
					}
					return true
				}
				if r.res.Panic != "" {
					x.Violation("request-panic", "step %d: request %d (%s, fault kind %d) panicked: %s", step, r.id, r.call.Method, r.kind, truncate(r.res.Panic, 200))
					return false
				}
				if atomic.LoadInt64(&h.mismatch) > 0 {
					x.Violation("cross-talk", "step %d: a rule computed from its request's own map and slice a value that is not its request's (an argument or element of another request was used); events %v", step, h.log.Snapshot())
					return false
				}
				if r.kind == 9 || r.kind == 12 || r.kind == 13 {
					// unusual requests (data under the name and type of a pool api, entries with a nil
					// value or an empty key, an integer literal key on an unsigned-keyed map): C17 does
					// not say whether they succeed; they must not panic, must not see another request's
					// data, and their instance must come back (checked by the capacity invariant)
					if r.res.Err == nil && r.kind != 13 && fmt.Sprint(r.res.Map["main"]) != fmt.Sprint(r.id) {
						x.Violation("foreign-id", "step %d: request %d (%s) got %v from its rule: it read another request's injected object (two in-flight requests shared an instance) or lost its result; result %v", step, r.id, r.call.Method, r.res.Map["main"], sortedMap(r.res.Map))
						return false
					}
					if r.res.Err != nil {
						x.Class(fmt.Sprintf("unusual-request-kind-%d-rejected", r.kind))
					}
					return true
				}
				if r.kind == 0 {
					if r.res.Err != nil {
						x.Violation("healthy-request-failed", "step %d: healthy request %d (%s) failed: %s", step, r.id, r.call.Method, truncate(r.res.Err.Error(), 300))
						return false
					}
					if fmt.Sprint(r.res.Map["main"]) != fmt.Sprint(r.id) {
						x.Violation("foreign-id", "step %d: request %d (%s) got %v from its rule: it read another request's injected object (two in-flight requests shared an instance) or lost its result; result %v", step, r.id, r.call.Method, r.res.Map["main"], sortedMap(r.res.Map))
						return false
					}
				} else {
					faultDone = true
					if r.res.Err == nil {
						x.Violation("faulty-request-no-error", "step %d: request %d with fault kind %d returned a nil error", step, r.id, r.kind)
						return false
					}
				}
				return true
			}
			for step, op := range c.Ops {
				switch op.Kind {
				case "clear":
					h.pool.ClearPoolRules()
					cleared = true
					epoch++
					x.Class("clear-with-requests-outstanding")
				case "restore":
					if err := h.pool.UpdatePooledRules(c17Rules); err != nil {
						x.Violation("restore-failed", "UpdatePooledRules after clear failed: %v", err)
						return
					}
					cleared = false
					epoch++
				case "start":
					nextID++
					startEpoch[nextID] = epoch
					startCleared[nextID] = cleared
					call := fullCall(methods[op.Method%len(methods)], []string{"main", "aux"}, step)
					fault := op.Fault
					if (fault == 9 || fault == 11 || fault == 12) && call.Method == "ExecuteRulesWithSpecifiedEM" {
						fault = 0 // that method injects at most two values
					}
					h.start(nextID, fault, []string{"who"}, call)
					x.Class("method:" + call.Method)
					if op.Fault != 0 {
						x.Class(fmt.Sprintf("fault-kind:%d", op.Fault))
					}
					if len(h.out) > h.max {
						overCap = true
						x.Class("more-than-max-outstanding")
					}
				case "release":
					if len(h.out) == 0 {
						continue
					}
					// only a request that is parked inside its rule can be released
					r := h.releaseParked(x, op.K)
					if r == nil {
						continue
					}
					if !checkReq(r, step) {
						return
					}
				}
				h.settle(x, fmt.Sprintf("step %d (%s)", step, op.Kind))
				for _, r := range h.takeReaped() {
					if startEpoch[r.id] != epoch || startCleared[r.id] {
						if !checkReq(r, step) {
							return
						}
						continue
					}
					if r.kind == 11 {
						// no data at all: the rule fails before it can park
						if !checkReq(r, step) {
							return
						}
						continue
					}
					x.Violation("request-skipped-its-rule", "step %d: request %d (%s) finished without running its rule", step, r.id, r.call.Method)
					return
				}
				if int(h.gates.MaxInGate()) > h.max {
					x.Violation("over-capacity", "step %d: %d requests were inside rules simultaneously on a pool of max %d", step, h.gates.MaxInGate(), h.max)
					return
				}
			}
			// drain, checking each
			for len(h.out) > 0 {
				r := h.releaseParked(x, 0)
				if r == nil {
					h.settle(x, "draining")
					continue
				}
				if !checkReq(r, len(c.Ops)) {
					return
				}
				h.settle(x, "draining")
			}
			if int(h.gates.MaxInGate()) > h.max {
				x.Violation("over-capacity", "%d requests were inside rules simultaneously on a pool of max %d", h.gates.MaxInGate(), h.max)
				return
			}
			for _, r := range h.takeReaped() {
				if !checkReq(r, len(c.Ops)) {
					return
				}
			}
			// final probe: the pool can still serve max simultaneous requests
			if err := h.pool.UpdatePooledRules(c17Rules); err != nil {
				x.Violation("restore-failed", "UpdatePooledRules failed: %v", err)
				return
			}
			cleared = false
			epoch++
			for i := 0; i < h.max; i++ {
				nextID++
				startEpoch[nextID] = epoch
				h.start(nextID, 0, []string{"who"}, fullCall("Execute", []string{"main", "aux"}, 0))
			}
			h.settle(x, "final probe-all")
			for len(h.out) > 0 {
				r := h.releaseParked(x, 0)
				if r == nil {
					h.settle(x, "final probe drain")
					continue
				}
				if !checkReq(r, -1) {
					return
				}
			}
			if overCap && faultDone {
				x.NonTrivial()
			}
			if overCap {
				x.Class("waiters-existed")
			}
		},
	})
}

type c17Slot struct {
	entered int32
	release int32
	done    chan gx.Result
}

var c17Sink int64

func c17Spin(k int) {
	v := int64(0)
	for i := 0; i < k; i++ {
		v += int64(i)
	}
	atomic.AddInt64(&c17Sink, v)
}

func c17WaitFlag(f *int32) {
	for i := 0; atomic.LoadInt32(f) == 0; i++ {
		if i > 20000 {
			if i > 200000 {
				time.Sleep(50 * time.Microsecond)
			} else {
				runtime.Gosched()
			}
		}
	}
}

// c17Await polls flag until it is set; false if it stays unset for the whole bound. A hand-over
// that needs more than a tenth of the bound is classified, not reported.
func c17Await(f *int32, x *Ctx) bool {
	start := time.Now()
	for i := 0; atomic.LoadInt32(f) == 0; i++ {
		if i > 2000 {
			time.Sleep(20 * time.Microsecond)
			if time.Since(start) > hangBound() {
				return false
			}
		}
	}
	if time.Since(start) > hangBound()/10 {
		x.Class("storm-slow-handover")
	}
	return true
}

// c17StormSlot serialises storms across the shard processes of one run: a storm needs a few
// cores of its own for its spin-aligned hand-overs, so at most four run at any time (advisory
// file locks beside the shards' output directories; a replay has the directory to itself).
func c17StormSlot() func() {
	dir := filepath.Dir(outDir())
	for {
		for i := 0; i < 4; i++ {
			f, err := os.OpenFile(filepath.Join(dir, fmt.Sprintf("storm-slot-%d.lock", i)), os.O_CREATE|os.O_RDWR, 0o644)
			if err != nil {
				return func() {}
			}
			if syscall.Flock(int(f.Fd()), syscall.LOCK_EX|syscall.LOCK_NB) == nil {
				return func() { syscall.Flock(int(f.Fd()), syscall.LOCK_UN); f.Close() }
			}
			f.Close()
		}
		time.Sleep(2 * time.Millisecond)
	}
}

func checkC17Storm(c *C17Case, x *Ctx) {
	st := c.Storm
	defer c17StormSlot()()
	slots := make([]*c17Slot, st.N+int(c.PoolMax)+2)
	for i := range slots {
		slots[i] = &c17Slot{done: make(chan gx.Result, 1)}
	}
	apis := map[string]interface{}{"hold": func(id int64) {
		s := slots[id]
		atomic.StoreInt32(&s.entered, 1)
		if id < c.PoolMax-1 {
			// the long runners do not spin
			for atomic.LoadInt32(&s.release) == 0 {
				time.Sleep(200 * time.Microsecond)
			}
			return
		}
		c17WaitFlag(&s.release)
	}}
	p, err := engine.NewGenginePool(c.PoolMin, c.PoolMax, c.EM, c17StormRules, apis)
	if err != nil {
		x.Violation("setup", "NewGenginePool: %v", err)
		return
	}
	defer func() {
		for _, s := range slots {
			atomic.StoreInt32(&s.release, 1)
		}
	}()
	methods := gx.MethodNames(true)
	call := fullCall(methods[st.Method%len(methods)], []string{"hold", "aux"}, 0)
	x.Class("storm-method:" + call.Method)
	x.Class(fmt.Sprintf("storm-pool-max:%d", c.PoolMax))
	exec := func(id int) {
		data := map[string]interface{}{"who": &Payload{Id: int64(id), Sl: []int64{0, int64(id)}}}
		slots[id].done <- gx.OnPool(p, call, data, &engine.Stag{})
	}
	// ids 0..max-2 are the long runners, id max-1 the first holder of the travelling instance
	first := int(c.PoolMax) - 1
	for id := 0; id <= first; id++ {
		go exec(id)
	}
	for id := 0; id <= first; id++ {
		if !c17Await(&slots[id].entered, x) {
			x.Violation("storm-setup", "a fresh pool (%d,%d) did not run %d requests simultaneously", c.PoolMin, c.PoolMax, c.PoolMax)
			return
		}
	}
	for n := first; n < first+st.N; n++ {
		k := st.offset(n)
		h := slots[n]
		var ready int32
		go func(id int) {
			atomic.StoreInt32(&ready, 1)
			c17WaitFlag(&h.release)
			c17Spin(k)
			exec(id)
		}(n + 1)
		c17WaitFlag(&ready)
		c17Spin(2000)
		atomic.StoreInt32(&h.release, 1)
		var res gx.Result
		select {
		case res = <-h.done:
		case <-time.After(hangBound()):
			x.Violation("storm-no-return", "hand-over %d: the request that was let go did not return", n-first)
			return
		}
		if res.Panic != "" || res.Err != nil || fmt.Sprint(res.Map["hold"]) != fmt.Sprint(n) {
			x.Violation("storm-result", "hand-over %d: request %d (%s) returned err=%v panic=%q result=%v", n-first, n, call.Method, res.Err, truncate(res.Panic, 200), sortedMap(res.Map))
			return
		}
		// Hn has returned: max-1 requests are in flight, so H(n+1) must get an instance
		if !c17Await(&slots[n+1].entered, x) {
			select {
			case r := <-slots[n+1].done:
				x.Violation("storm-waiter-failed", "hand-over %d (offset %d): the request that found all instances busy ended without running its rule: err=%v panic=%q", n-first, k, r.Err, truncate(r.Panic, 200))
			default:
				x.Violation("storm-waiter-stuck", "hand-over %d (offset %d spin iterations, method %s): the next request is still waiting for an instance %v after the previous request returned, with %d requests in flight on a pool of max %d: a waiter does not proceed / an instance is lost", n-first, k, call.Method, hangBound(), c.PoolMax-1, c.PoolMax)
			}
			return
		}
	}
	x.Class("storm-completed")
	if st.N >= 300 {
		x.NonTrivial()
	}
}

// c17Side is one pool of checkC17Two with its own gates.
type c17Side struct {
	p     *engine.GenginePool
	slots []*c17Slot
	call  gx.Call
}

func newC17Side(min, max int64, em int, n int, call gx.Call) (*c17Side, error) {
	sd := &c17Side{call: call}
	for i := 0; i < n; i++ {
		sd.slots = append(sd.slots, &c17Slot{done: make(chan gx.Result, 1)})
	}
	apis := map[string]interface{}{"hold": func(id int64) {
		s := sd.slots[id]
		atomic.StoreInt32(&s.entered, 1)
		for atomic.LoadInt32(&s.release) == 0 {
			time.Sleep(100 * time.Microsecond)
		}
	}}
	p, err := engine.NewGenginePool(min, max, em, c17StormRules, apis)
	sd.p = p
	return sd, err
}

func (sd *c17Side) exec(id int) {
	data := map[string]interface{}{"who": &Payload{Id: int64(id), Sl: []int64{0, int64(id)}}}
	sd.slots[id].done <- gx.OnPool(sd.p, sd.call, data, &engine.Stag{})
}

func (sd *c17Side) releaseAll() {
	for _, s := range sd.slots {
		atomic.StoreInt32(&s.release, 1)
	}
}

// checkC17Two: two pools in one process. Pool A is saturated and has Waiters requests waiting;
// pool B (1,2) is saturated with one waiter. When B's requests are let go, B's waiter must
// get B's instance although A is still saturated: pools share nothing.
func checkC17Two(c *C17Case, x *Ctx) {
	tw := c.Two
	methods := gx.MethodNames(true)
	call := fullCall(methods[tw.Method%len(methods)], []string{"hold", "aux"}, 0)
	amax := int(c.PoolMax)
	a, err := newC17Side(c.PoolMin, c.PoolMax, c.EM, amax+tw.Waiters, call)
	if err != nil {
		x.Violation("setup", "NewGenginePool: %v", err)
		return
	}
	b, err := newC17Side(1, 2, c.EM, 3, fullCall("Execute", []string{"hold", "aux"}, 0))
	if err != nil {
		x.Violation("setup", "NewGenginePool: %v", err)
		return
	}
	defer a.releaseAll()
	defer b.releaseAll()
	x.Class("two-pools-alive-at-once")
	if tw.Waiters >= 4 {
		x.Class("two-pools:first-pool-has->=4-waiting-requests")
		x.NonTrivial()
	}
	for id := 0; id < amax; id++ {
		go a.exec(id)
	}
	for id := 0; id < 2; id++ {
		go b.exec(id)
	}
	for id := 0; id < amax; id++ {
		if !c17Await(&a.slots[id].entered, x) {
			x.Violation("two-setup", "a fresh pool (%d,%d) did not run %d requests simultaneously", c.PoolMin, c.PoolMax, amax)
			return
		}
	}
	for id := 0; id < 2; id++ {
		if !c17Await(&b.slots[id].entered, x) {
			x.Violation("two-setup", "a fresh pool (1,2) did not run 2 requests simultaneously while another pool is busy")
			return
		}
	}
	for id := amax; id < amax+tw.Waiters; id++ {
		go a.exec(id)
	}
	time.Sleep(5 * time.Millisecond) // A's waiters are in their wait loop
	go b.exec(2)
	time.Sleep(2 * time.Millisecond)
	// B's parked requests go on and return; B's waiter must get an instance of B
	for id := 0; id < 2; id++ {
		atomic.StoreInt32(&b.slots[id].release, 1)
	}
	if !c17Await(&b.slots[2].entered, x) {
		x.Violation("two-pools-waiter-stuck", "pool B (1,2): its waiting request is still waiting %v after both of B's instances were handed back, while pool A (%d,%d) of the same process is saturated with %d waiting requests: a waiter does not proceed", hangBound(), c.PoolMin, c.PoolMax, tw.Waiters)
		return
	}
	b.releaseAll()
	a.releaseAll()
	check := func(sd *c17Side, name string, n int) bool {
		for id := 0; id < n; id++ {
			select {
			case res := <-sd.slots[id].done:
				if res.Panic != "" || res.Err != nil || fmt.Sprint(res.Map["hold"]) != fmt.Sprint(id) {
					x.Violation("two-pools-result", "pool %s request %d returned err=%v panic=%q result=%v, want its own id", name, id, res.Err, truncate(res.Panic, 200), sortedMap(res.Map))
					return false
				}
			case <-time.After(hangBound()):
				x.Violation("two-pools-stuck", "pool %s request %d did not return within %v after everything was let go", name, id, hangBound())
				return false
			}
		}
		return true
	}
	if !check(b, "B", 3) || !check(a, "A", amax+tw.Waiters) {
		return
	}
}

// checkC17Slow: the pool stays saturated for seconds of wall-clock time. max requests sit inside
// their rule, Waiters more requests wait for an instance the whole time; none of them may start
// before an instance is handed back, all of them must run and return their own id afterwards, and
// the pool serves max simultaneous requests again.
func checkC17Slow(c *C17Case, x *Ctx) {
	sl := c.Slow
	max := int(c.PoolMax)
	total := max + sl.Waiters
	slots := make([]*c17Slot, total+max)
	for i := range slots {
		slots[i] = &c17Slot{done: make(chan gx.Result, 1)}
	}
	var inflight, maxIn int64
	apis := map[string]interface{}{"hold": func(id int64) {
		n := atomic.AddInt64(&inflight, 1)
		for {
			old := atomic.LoadInt64(&maxIn)
			if n <= old || atomic.CompareAndSwapInt64(&maxIn, old, n) {
				break
			}
		}
		s := slots[id]
		atomic.StoreInt32(&s.entered, 1)
		for atomic.LoadInt32(&s.release) == 0 {
			time.Sleep(200 * time.Microsecond)
		}
		atomic.AddInt64(&inflight, -1)
	}}
	p, err := engine.NewGenginePool(c.PoolMin, c.PoolMax, c.EM, c17StormRules, apis)
	if err != nil {
		x.Violation("setup", "NewGenginePool: %v", err)
		return
	}
	defer func() {
		for _, s := range slots {
			atomic.StoreInt32(&s.release, 1)
		}
	}()
	methods := gx.MethodNames(true)
	call := fullCall(methods[sl.Method%len(methods)], []string{"hold", "aux"}, 0)
	x.Class("slow-hold")
	x.Class(fmt.Sprintf("slow-hold-seconds:%d", sl.HoldMs/1000))
	x.NonTrivial()
	exec := func(id int) {
		data := map[string]interface{}{"who": &Payload{Id: int64(id), Sl: []int64{0, int64(id)}}}
		slots[id].done <- gx.OnPool(p, call, data, &engine.Stag{})
	}
	for id := 0; id < max; id++ {
		go exec(id)
	}
	for id := 0; id < max; id++ {
		if !c17Await(&slots[id].entered, x) {
			x.Violation("slow-setup", "a fresh pool (%d,%d) did not run %d requests simultaneously", c.PoolMin, c.PoolMax, c.PoolMax)
			return
		}
	}
	for id := max; id < total; id++ {
		go exec(id)
	}
	deadline := time.Now().Add(time.Duration(sl.HoldMs) * time.Millisecond)
	for time.Now().Before(deadline) {
		time.Sleep(20 * time.Millisecond)
		for id := max; id < total; id++ {
			if atomic.LoadInt32(&slots[id].entered) != 0 {
				x.Violation("over-capacity", "a request entered its rule while all %d instances of the pool (%d,%d) had been inside a rule for %v: more than max requests run simultaneously", max, c.PoolMin, c.PoolMax, time.Duration(sl.HoldMs)*time.Millisecond-time.Until(deadline))
				return
			}
			select {
			case r := <-slots[id].done:
				x.Violation("slow-waiter-failed", "the request that found all instances busy ended without running its rule: err=%v panic=%q", r.Err, truncate(r.Panic, 200))
				return
			default:
			}
		}
	}
	finish := func(id int, what string) bool {
		atomic.StoreInt32(&slots[id].release, 1)
		select {
		case res := <-slots[id].done:
			if res.Panic != "" || res.Err != nil || fmt.Sprint(res.Map["hold"]) != fmt.Sprint(id) {
				x.Violation("slow-result", "%s %d (%s) on a pool that was saturated for %d ms returned err=%v panic=%q result=%v, want its own id", what, id, call.Method, sl.HoldMs, res.Err, truncate(res.Panic, 200), sortedMap(res.Map))
				return false
			}
		case <-time.After(hangBound()):
			x.Violation("slow-no-return", "%s %d that was let go after %d ms did not return", what, id, sl.HoldMs)
			return false
		}
		return true
	}
	for id := 0; id < max; id++ {
		if !finish(id, "parked request") {
			return
		}
	}
	// all instances are back: the waiters proceed, in any order, at most max at a time
	left := map[int]bool{}
	for id := max; id < total; id++ {
		left[id] = true
	}
	for len(left) > 0 {
		start, got := time.Now(), -1
		for got < 0 {
			for id := max; id < total; id++ {
				if left[id] && atomic.LoadInt32(&slots[id].entered) != 0 {
					got = id
					break
				}
			}
			if got < 0 {
				if time.Since(start) > hangBound() {
					x.Violation("slow-waiter-stuck", "%d request(s) that had waited %d ms for an instance of the pool (%d,%d) are still waiting %v after all instances were handed back and no request is inside a rule: a waiter does not proceed", len(left), sl.HoldMs, c.PoolMin, c.PoolMax, hangBound())
					return
				}
				time.Sleep(50 * time.Microsecond)
			}
		}
		delete(left, got)
		if !finish(got, "waiting request") {
			return
		}
	}
	// the pool still serves max simultaneous requests
	for id := total; id < total+max; id++ {
		go exec(id)
	}
	for id := total; id < total+max; id++ {
		if !c17Await(&slots[id].entered, x) {
			x.Violation("capacity-lost", "after a saturation of %d ms fewer than max=%d requests can be inside their rule together", sl.HoldMs, max)
			return
		}
	}
	for id := total; id < total+max; id++ {
		if !finish(id, "probe request") {
			return
		}
	}
	if atomic.LoadInt64(&maxIn) > c.PoolMax {
		x.Violation("over-capacity", "%d requests were inside rules simultaneously on a pool of max %d", maxIn, c.PoolMax)
	}
}

func checkC17Hammer(c *C17Case, x *Ctx) {
	hm := c.Hammer
	defer c17StormSlot()()
	var inflight, maxIn int64
	const probeBase = int64(1) << 40
	probe := make([]c17Slot, c.PoolMax)
	apis := map[string]interface{}{"hold": func(id int64) {
		n := atomic.AddInt64(&inflight, 1)
		for {
			old := atomic.LoadInt64(&maxIn)
			if n <= old || atomic.CompareAndSwapInt64(&maxIn, old, n) {
				break
			}
		}
		if id >= probeBase {
			s := &probe[id-probeBase]
			atomic.StoreInt32(&s.entered, 1)
			for atomic.LoadInt32(&s.release) == 0 {
				time.Sleep(50 * time.Microsecond)
			}
		} else {
			for i := int64(0); i < id%3; i++ {
				runtime.Gosched()
			}
		}
		atomic.AddInt64(&inflight, -1)
	}}
	p, err := engine.NewGenginePool(c.PoolMin, c.PoolMax, c.EM, c17StormRules, apis)
	if err != nil {
		x.Violation("setup", "NewGenginePool: %v", err)
		return
	}
	x.Class("hammer")
	x.NonTrivial()
	methods := gx.MethodNames(true)
	errs := make(chan string, hm.Clients)
	done := make(chan struct{})
	var wg sync.WaitGroup
	for cl := 0; cl < hm.Clients; cl++ {
		wg.Add(1)
		go func(cl int) {
			defer wg.Done()
			name := methods[(cl+hm.Salt)%len(methods)]
			if name == "ExecuteRulesWithSpecifiedEM" {
				name = "Execute"
			}
			call := fullCall(name, []string{"hold", "aux"}, cl)
			for k := 0; k < hm.Reqs; k++ {
				id := int64(cl*100000 + k + 1)
				res := gx.OnPool(p, call, map[string]interface{}{"who": &Payload{Id: id, Sl: []int64{0, id}}}, &engine.Stag{})
				if res.Panic != "" || res.Err != nil || fmt.Sprint(res.Map["hold"]) != fmt.Sprint(id) {
					select {
					case errs <- fmt.Sprintf("request %d (%s) returned err=%v panic=%q result=%v", id, call.Method, res.Err, truncate(res.Panic, 200), sortedMap(res.Map)):
					default:
					}
					return
				}
			}
		}(cl)
	}
	go func() { wg.Wait(); close(done) }()
	select {
	case <-done:
	case <-time.After(3 * hangBound()):
		for i := range probe {
			atomic.StoreInt32(&probe[i].release, 1)
		}
		x.Violation("hammer-stuck", "%d clients x %d short requests on a pool (%d,%d) did not finish within %v: requests wait although instances must be free", hm.Clients, hm.Reqs, c.PoolMin, c.PoolMax, 3*hangBound())
		return
	}
	select {
	case m := <-errs:
		x.Violation("hammer-result", "%s", m)
		return
	default:
	}
	if atomic.LoadInt64(&maxIn) > c.PoolMax {
		x.Violation("over-capacity", "%d requests were inside rules simultaneously on a pool of max %d", maxIn, c.PoolMax)
		return
	}
	// the pool can still serve max simultaneous requests - three times in a row, so that every
	// instance has been handed out and taken back while all others were out
	for wave := 0; wave < 3; wave++ {
		for i := range probe {
			probe[i] = c17Slot{}
		}
		pdone := make(chan gx.Result, c.PoolMax)
		for i := int64(0); i < c.PoolMax; i++ {
			go func(i int64) {
				pdone <- gx.OnPool(p, fullCall("Execute", []string{"hold", "aux"}, 0), map[string]interface{}{"who": &Payload{Id: probeBase + i, Sl: []int64{0, probeBase + i}}}, &engine.Stag{})
			}(i)
		}
		ok := true
		for i := range probe {
			if !c17Await(&probe[i].entered, x) {
				ok = false
				break
			}
		}
		for i := range probe {
			atomic.StoreInt32(&probe[i].release, 1)
		}
		if !ok {
			x.Violation("capacity-lost", "after %d clients x %d short requests (wave %d), fewer than max=%d requests can be inside their rule together: instances were lost", hm.Clients, hm.Reqs, wave, c.PoolMax)
			return
		}
		for i := int64(0); i < c.PoolMax; i++ {
			select {
			case r := <-pdone:
				if r.Panic != "" || r.Err != nil {
					x.Violation("hammer-result", "probe request returned err=%v panic=%q", r.Err, truncate(r.Panic, 200))
					return
				}
			case <-time.After(hangBound()):
				x.Violation("hammer-stuck", "a probe request did not return after it was let go")
				return
			}
		}
	}
	if atomic.LoadInt64(&maxIn) > c.PoolMax {
		x.Violation("over-capacity", "%d requests were inside rules simultaneously on a pool of max %d", maxIn, c.PoolMax)
	}
	if c.PoolMax > 32 {
		x.Class("hammer-on-a-pool-with-more-than-32-instances")
	}
}

func TestC17(t *testing.T) { runProp(t, "C17") }
