package props

import (
	"fmt"
	"testing"

	"github.com/bilibili/gengine/engine"
	"pgregory.net/rapid"

	"verif/gx"
)

// C17 - pool capacity: at most max in flight, waiters proceed, instances are never lost.
type C17Op struct {
	Kind   string `json:"kind"` // start | release | clear (ClearPoolRules) | restore (UpdatePooledRules with the same rules)
	Fault  int64  `json:"fault,omitempty"`
	Method int    `json:"method,omitempty"`
	K      int    `json:"k,omitempty"`
}

type C17Case struct {
	PoolMin int64   `json:"pool_min"`
	PoolMax int64   `json:"pool_max"`
	EM      int     `json:"em"`
	Ops     []C17Op `json:"ops"`
}

const c17Rules = `
rule "main" "d" salience 10
begin
  S(@name)
  gatei(who.Id)
  loc = who.Id
  who.M["k"] = loc
  who.Sl[1] = loc
  if who.Kind == 1 {
    zz = 1 / 0
  }
  if who.Kind == 5 {
    who.NilM["k"] = 1
  }
  if who.Kind == 6 {
    who.M[5] = 1
  }
  if who.Kind == 7 {
    who.Sl[9] = 1
  }
  if who.Kind == 8 {
    zz = who.NilM["k"] + who.Sl[7]
  }
  if who.Kind == 2 {
    boom()
  }
  if who.Kind == 3 {
    if who.Id {
      zz = 1
    }
  }
  if who.Kind == 4 {
    zz = nosuch.F + 1
  }
  return loc
end
rule "aux" "d" salience 1
begin
  same(who.Id, who.Id)
  return 0
end
`

func init() {
	register(&Prop{
		ID:   "C17",
		Rule: "request histories on pools of size (1,2),(1,3),(2,3),(2,4),(3,6): start request (healthy / rule error / panicking injected function / type fault outside the self-recovering constructs / missing name / store into a nil map / wrong key kind / out-of-range element store and read; every request also binds a local and writes its own map and slice) through any of the 24 pool execute methods, release the k-th outstanding request; up to max+4 outstanding, every request parks inside its rule on a Hold gate keyed by its id; oracle after every step: the number of requests parked inside rules equals min(max, outstanding) within the bound (waiters proceed, nothing lost) and never exceeds max, every finished request returned its own id (two in-flight requests on one instance would overwrite each other's injected object), a request never fails because the pool is busy, and after the history max requests park simultaneously again. Non-trivial: at some point more than max requests are outstanding and a failing or panicking request finished before the final probe; distinct by case hash",
		New:  func() interface{} { return &C17Case{} },
		Gen: func(t *rapid.T) interface{} {
			c := &C17Case{}
			sizes := [][2]int64{{1, 2}, {1, 3}, {2, 3}, {2, 4}, {3, 6}}
			s := sizes[uni(t, "pool_size", 0, len(sizes)-1)]
			c.PoolMin, c.PoolMax = s[0], s[1]
			c.EM = uni(t, "em", 1, 4)
			n := uni(t, "nops", 3, 24)
			out := 0
			for i := 0; i < n; i++ {
				if pct(t, fmt.Sprintf("mgmt%d", i), 7) {
					c.Ops = append(c.Ops, C17Op{Kind: []string{"clear", "restore"}[uni(t, fmt.Sprintf("mgmtkind%d", i), 0, 1)]})
					continue
				}
				if out > 0 && (out >= int(c.PoolMax)+4 || pct(t, fmt.Sprintf("rel%d", i), 40)) {
					c.Ops = append(c.Ops, C17Op{Kind: "release", K: uni(t, fmt.Sprintf("k%d", i), 0, out-1)})
					out--
					continue
				}
				f := int64(0)
				if pct(t, fmt.Sprintf("faulty%d", i), 40) {
					f = int64(uni(t, fmt.Sprintf("fault%d", i), 1, 8))
				}
				c.Ops = append(c.Ops, C17Op{Kind: "start", Fault: f, Method: uni(t, fmt.Sprintf("m%d", i), 0, 23)})
				out++
			}
			return c
		},
		Check: func(ci interface{}, x *Ctx) {
			c := ci.(*C17Case)
			h := newPoolHarness()
			h.max = int(c.PoolMax)
			p, err := engine.NewGenginePool(c.PoolMin, c.PoolMax, c.EM, c17Rules, h.apis())
			if err != nil {
				x.Violation("setup", "NewGenginePool: %v", err)
				return
			}
			h.pool = p
			defer h.gates.ReleaseAll()
			methods := gx.MethodNames(true)
			nextID := int64(100)
			overCap, faultDone := false, false
			cleared := false
			epoch := 0
			startEpoch := map[int64]int{}
			startCleared := map[int64]bool{}
			checkReq := func(r *poolReq, step int) bool {
				if r.res.Panic != "" {
					x.Violation("request-panic", "step %d: request %d (%s, fault kind %d) panicked: %s", step, r.id, r.call.Method, r.kind, truncate(r.res.Panic, 200))
					return false
				}
				if startEpoch[r.id] != epoch || startCleared[r.id] {
					// the request overlapped a clear / restore (or started on a cleared pool): it may
					// have run the rules, run nothing (empty map, nil error) or failed with "no rule";
					// only its own id may ever appear
					x.Class("request-overlapping-clear-or-restore")
					if v, ok := r.res.Map["main"]; ok && fmt.Sprint(v) != fmt.Sprint(r.id) {
						x.Violation("foreign-id", "step %d: request %d got %v from its rule", step, r.id, v)
						return false
					}
					if r.kind != 0 {
						faultDone = true
					}
					return true
				}
				if r.res.Panic != "" {
					x.Violation("request-panic", "step %d: request %d (%s, fault kind %d) panicked: %s", step, r.id, r.call.Method, r.kind, truncate(r.res.Panic, 200))
					return false
				}
				if r.kind == 0 {
					if r.res.Err != nil {
						x.Violation("healthy-request-failed", "step %d: healthy request %d (%s) failed: %s", step, r.id, r.call.Method, truncate(r.res.Err.Error(), 300))
						return false
					}
					if fmt.Sprint(r.res.Map["main"]) != fmt.Sprint(r.id) {
						x.Violation("foreign-id", "step %d: request %d (%s) got %v from its rule: it read another request's injected object (two in-flight requests shared an instance) or lost its result; result %v", step, r.id, r.call.Method, r.res.Map["main"], sortedMap(r.res.Map))
						return false
					}
				} else {
					faultDone = true
					if r.res.Err == nil {
						x.Violation("faulty-request-no-error", "step %d: request %d with fault kind %d returned a nil error", step, r.id, r.kind)
						return false
					}
				}
				return true
			}
			for step, op := range c.Ops {
				switch op.Kind {
				case "clear":
					h.pool.ClearPoolRules()
					cleared = true
					epoch++
					x.Class("clear-with-requests-outstanding")
				case "restore":
					if err := h.pool.UpdatePooledRules(c17Rules); err != nil {
						x.Violation("restore-failed", "UpdatePooledRules after clear failed: %v", err)
						return
					}
					cleared = false
					epoch++
				case "start":
					nextID++
					startEpoch[nextID] = epoch
					startCleared[nextID] = cleared
					call := fullCall(methods[op.Method%len(methods)], []string{"main", "aux"}, step)
					h.start(nextID, op.Fault, []string{"who"}, call)
					x.Class("method:" + call.Method)
					if op.Fault != 0 {
						x.Class(fmt.Sprintf("fault-kind:%d", op.Fault))
					}
					if len(h.out) > h.max {
						overCap = true
						x.Class("more-than-max-outstanding")
					}
				case "release":
					if len(h.out) == 0 {
						continue
					}
					// only a request that is parked inside its rule can be released
					r := h.releaseParked(x, op.K)
					if r == nil {
						continue
					}
					if !checkReq(r, step) {
						return
					}
				}
				h.settle(x, fmt.Sprintf("step %d (%s)", step, op.Kind))
				for _, r := range h.takeReaped() {
					if startEpoch[r.id] != epoch || startCleared[r.id] {
						if !checkReq(r, step) {
							return
						}
						continue
					}
					x.Violation("request-skipped-its-rule", "step %d: request %d (%s) finished without running its rule", step, r.id, r.call.Method)
					return
				}
				if int(h.gates.MaxInGate()) > h.max {
					x.Violation("over-capacity", "step %d: %d requests were inside rules simultaneously on a pool of max %d", step, h.gates.MaxInGate(), h.max)
					return
				}
			}
			// drain, checking each
			for len(h.out) > 0 {
				r := h.releaseParked(x, 0)
				if r == nil {
					h.settle(x, "draining")
					continue
				}
				if !checkReq(r, len(c.Ops)) {
					return
				}
				h.settle(x, "draining")
			}
			if int(h.gates.MaxInGate()) > h.max {
				x.Violation("over-capacity", "%d requests were inside rules simultaneously on a pool of max %d", h.gates.MaxInGate(), h.max)
				return
			}
			for _, r := range h.takeReaped() {
				if !checkReq(r, len(c.Ops)) {
					return
				}
			}
			// final probe: the pool can still serve max simultaneous requests
			if err := h.pool.UpdatePooledRules(c17Rules); err != nil {
				x.Violation("restore-failed", "UpdatePooledRules failed: %v", err)
				return
			}
			cleared = false
			epoch++
			for i := 0; i < h.max; i++ {
				nextID++
				startEpoch[nextID] = epoch
				h.start(nextID, 0, []string{"who"}, fullCall("Execute", []string{"main", "aux"}, 0))
			}
			h.settle(x, "final probe-all")
			for len(h.out) > 0 {
				r := h.releaseParked(x, 0)
				if r == nil {
					h.settle(x, "final probe drain")
					continue
				}
				if !checkReq(r, -1) {
					return
				}
			}
			if overCap && faultDone {
				x.NonTrivial()
			}
			if overCap {
				x.Class("waiters-existed")
			}
		},
	})
}

func TestC17(t *testing.T) { runProp(t, "C17") }
