package props

import (
	"fmt"
	"regexp"
	"sort"
	"strconv"
	"strings"
	"testing"
	"time"

	"github.com/bilibili/gengine/builder"
	"github.com/bilibili/gengine/context"
	"github.com/bilibili/gengine/engine"
	"pgregory.net/rapid"

	"verif/obs"
)

// C10 - compiling is total, all-or-nothing, and identical across entry points.
type C10Case struct {
	Kind  string `json:"kind"` // valid | mutated | dupname | soup | arbitrary
	Text  []byte `json:"text"`
	State string `json:"state"` // s0 | empty
	// Expect (valid texts only): rule name -> tag installed by the text
	Expect map[string]int64 `json:"expect,omitempty"`
	Sal    map[string]int64 `json:"sal,omitempty"`
	// Follow, if set, is a text that is valid by construction; after Text was rejected it is
	// submitted to the same objects through the same entry points, and to fresh objects in the
	// same state: a rejected text must have no effect on what a later compile does.
	Follow []byte `json:"follow,omitempty"`
	// PreReject: before the text is submitted every object receives a management call that is
	// rejected (RemoveRules with an empty list): the state "after a rejected call" is a state
	// of the builder / pool like any other.
	PreReject bool `json:"pre_reject,omitempty"`
}

// c10Reuse, when non-nil (native fuzzing only), caches the four S0 targets between
// iterations; see the Check function.
var c10Reuse map[string]*c10Target

// the known installed state S0: version-tagged observer rules
var c10S0 = map[string]int64{"s0": 900, "s1": 901, "s2": 902}
var c10S0Sal = map[string]int64{"s0": 5, "s1": 3, "s2": 1}

func c10S0Text() string {
	var sb strings.Builder
	for _, n := range []string{"s0", "s1", "s2"} {
		fmt.Fprintf(&sb, "rule %q %q salience %d\nbegin\n  S(@name)\n  return %d\nend\n", n, "d_"+n, c10S0Sal[n], c10S0[n])
	}
	return sb.String()
}

var c10BodyLines = []string{
	"a = 1 + 2 * 3",
	"if a > 2 && !false { b = \"x\" } else if a == 0 { b = \"y\" } else { b = \"z\" }",
	"for i = 0 ; i < 2 ; i += 1 { a += i if i == 1 { continue } }",
	"forRange k := sl { a = a + sl [ k ] }",
	"conc { c = ok ( 1 ) O.Add ( 2 ) }",
	"m [ \"k1\" ] = a",
	"W.N = O.In.Get ( )",
	"x = 2.5e3 / 4.0 - @sal",
	"if @name != \"\" || @id >= 0 { tr ( 1 ) }",
	"// a comment",
	"W.Arr [ 1 ] = -3 b2 = W.B == true",
}

var c10KwRe = regexp.MustCompile(`"[^"]*"|\b(rule|begin|end|salience|return|if|else|for|forRange|conc|continue|true|false)\b`)

// c10KeywordCase rewrites the keywords of a text (outside string literals) in upper case
// (mode 1) or with a capital first letter (mode 2): the keywords are case insensitive.
func c10KeywordCase(text string, mode int) string {
	return c10KwRe.ReplaceAllStringFunc(text, func(m string) string {
		if strings.HasPrefix(m, "\"") {
			return m
		}
		if mode == 1 {
			return strings.ToUpper(m)
		}
		return strings.ToUpper(m[:1]) + m[1:]
	})
}

func c10ValidText(t *rapid.T, c *C10Case) string {
	text := c10ValidTextLower(t, c)
	if pct(t, "kwcase", 25) {
		text = c10KeywordCase(text, uni(t, "kwmode", 1, 2))
	}
	return text
}

func c10ValidTextLower(t *rapid.T, c *C10Case) string {
	names := []string{"s0", "s1", "s2", "n0", "n1", "n2"}
	perm := rapid.Permutation(names).Draw(t, "names")
	n := uni(t, "nrules", 1, 4)
	c.Expect = map[string]int64{}
	c.Sal = map[string]int64{}
	var sb strings.Builder
	for i := 0; i < n; i++ {
		name := perm[i]
		tag := int64(100 + uni(t, "tag", 0, 799))
		sal := int64(uni(t, "sal", -2, 6))
		c.Expect[name] = tag
		c.Sal[name] = sal
		if pct(t, fmt.Sprintf("emptybody%d", i), 10) {
			// a rule with an empty body: it exists, runs nothing and returns nothing
			c.Expect[name] = -1
			fmt.Fprintf(&sb, "rule \"%s\" \"desc_%d\" salience %d\nbegin\nend\n", name, i, sal)
			continue
		}
		fmt.Fprintf(&sb, "rule \"%s\" \"desc_%d\" salience %d\nbegin\n  S ( @name )\n", name, i, sal)
		for j, ln := range c10BodyLines {
			if j == 0 || pct(t, fmt.Sprintf("line%d_%d", i, j), 35) {
				sb.WriteString("  " + ln + "\n")
			}
		}
		if pct(t, fmt.Sprintf("nested%d", i), 30) {
			sb.WriteString("  zn = " + c10Nested(t, fmt.Sprintf("nest%d_", i), uni(t, fmt.Sprintf("nestd%d", i), 1, 5)) + "\n")
		}
		fmt.Fprintf(&sb, "  return %d\nend\n", tag)
	}
	return sb.String()
}

// c10Nested renders a well-typed integer expression with bracket groups nested up to depth
// d inside operator chains (the shape the parser's prediction is sensitive to); texts
// whose estimated compile cost exceeds the limit are excluded by the check.
func c10Nested(t *rapid.T, label string, d int) string {
	atom := func(l string) string { return []string{"1", "a", "W.N", "2", "sl [ 0 ]", "@sal"}[uni(t, l, 0, 5)] }
	op := func(l string) string { return []string{"+", "-", "*"}[uni(t, l, 0, 2)] }
	if d <= 0 {
		return atom(label + "a")
	}
	in := "( " + c10Nested(t, label+"i", d-1) + " )"
	switch uni(t, label+"k", 0, 5) {
	case 0:
		return atom(label+"x") + " " + op(label+"o") + " " + atom(label+"y") + " " + op(label+"p") + " " + in
	case 1:
		return in + " " + op(label+"o") + " " + atom(label+"x")
	case 2:
		return in + " " + op(label+"o") + " ( " + c10Nested(t, label+"j", d-1) + " )"
	case 3:
		return atom(label+"x") + " " + op(label+"o") + " ok ( " + c10Nested(t, label+"j", d-1) + " )"
	case 4:
		return "( " + in + " )"
	default:
		return atom(label+"x") + " " + op(label+"o") + " " + in + " " + op(label+"p") + " " + atom(label+"y")
	}
}

var c10Vocab = []string{"rule", "begin", "end", "if", "else", "for", "forRange", "break", "continue", "return", "conc", "true", "false", "nil", "salience",
	"{", "}", "(", ")", "[", "]", ";", ",", "=", ":=", "+=", "==", "!=", "<", ">", "&&", "||", "!", "+", "-", "*", "/", "@name", "@id", "\"x\"", "\"", "1", "2.5", "a", "a.b", "a.b.c", "a.b.c.d", "#", "$", "RULE", "End", "9223372036854775808", "1e999", "\n"}

func c10Mutate(t *rapid.T, text string) string {
	toks := strings.Fields(text)
	nm := uni(t, "nmut", 1, 4)
	for k := 0; k < nm && len(toks) > 0; k++ {
		p := uni(t, "mpos", 0, len(toks)-1)
		switch uni(t, "mkind", 0, 5) {
		case 0: // delete
			toks = append(toks[:p], toks[p+1:]...)
		case 1: // duplicate
			toks = append(toks[:p+1], toks[p:]...)
		case 2: // swap with neighbour
			if p+1 < len(toks) {
				toks[p], toks[p+1] = toks[p+1], toks[p]
			}
		case 3: // replace by a vocabulary token
			toks[p] = c10Vocab[uni(t, "vocab", 0, len(c10Vocab)-1)]
		case 4: // insert a vocabulary token
			toks = append(toks[:p], append([]string{c10Vocab[uni(t, "vocab", 0, len(c10Vocab)-1)]}, toks[p:]...)...)
		default: // truncate
			toks = toks[:p]
		}
	}
	return strings.Join(toks, " ") + "\n"
}

// c10Target is one object in a known state on which an entry point is tried.
type c10Target struct {
	rb   *builder.RuleBuilder
	pool *engine.GenginePool
	env  *schedEnv
}

func c10Apis(env *schedEnv) map[string]interface{} {
	return c09Apis(env)
}

func newC10Builder(state string) (*c10Target, error) {
	env := newSchedEnv()
	dc := context.NewDataContext()
	for k, v := range c10Apis(env) {
		dc.Add(k, v)
	}
	dc.Add("stag", env.tag)
	rb := builder.NewRuleBuilder(dc)
	if state == "s0" {
		if err := rb.BuildRuleFromString(c10S0Text()); err != nil {
			return nil, err
		}
	}
	return &c10Target{rb: rb, env: env}, nil
}

func newC10Pool(state string) (*c10Target, error) {
	env := newSchedEnv()
	p, err := engine.NewGenginePool(1, 2, 1, c10S0Text(), c10Apis(env))
	if err != nil {
		return nil, err
	}
	if state != "s0" {
		// a pool cannot be constructed empty: the empty state of a pool is the cleared pool
		p.ClearPoolRules()
	}
	return &c10Target{pool: p, env: env}, nil
}

// observation of an installed rule set through the public API
type c10Obs struct {
	Exist   map[string]bool
	Results map[string]string
	Started []string
	Err     bool
	Panic   string
}

func (t *c10Target) observe(names []string) c10Obs {
	o := c10Obs{Exist: map[string]bool{}, Results: map[string]string{}}
	t.env.log.Reset()
	var m map[string]interface{}
	var err error
	_, o.Panic = guard(func() error {
		if t.pool != nil {
			for i, e := range t.pool.IsExist(names) {
				o.Exist[names[i]] = e
			}
			err, m = t.pool.Execute(map[string]interface{}{"stag": t.env.tag}, true)
		} else {
			for i, e := range t.rb.IsExist(names) {
				o.Exist[names[i]] = e
			}
			g := engine.NewGengine()
			err = g.Execute(t.rb, true)
			m, _ = g.GetRulesResultMap()
		}
		return nil
	})
	o.Err = err != nil
	for k, v := range m {
		o.Results[k] = fmt.Sprint(v)
	}
	for _, e := range t.env.log.Snapshot() {
		if e.Kind == "S" {
			o.Started = append(o.Started, e.Name)
		}
	}
	return o
}

var c10HeaderRe = regexp.MustCompile(`(?i)rule "(\w+)" "[^"]*" salience (-?\d+)`)

func (o c10Obs) key(withOrder bool) string {
	var ex, rs []string
	for k, v := range o.Exist {
		ex = append(ex, fmt.Sprintf("%s:%v", k, v))
	}
	for k, v := range o.Results {
		rs = append(rs, k+"="+v)
	}
	sort.Strings(ex)
	sort.Strings(rs)
	st := append([]string{}, o.Started...)
	if !withOrder {
		sort.Strings(st)
	}
	return fmt.Sprintf("exist=%v results=%v started=%v panic=%q", ex, rs, st, o.Panic)
}

var ruleNameRe = regexp.MustCompile(`(?i)rule\s*"([^"]*)"`)

// guard runs a builder / pool management call: a panic is returned as text, and a call that
// does not return within the hang bound ends the shard as a hang suspect.
func guard(f func() error) (err error, pan string) {
	type out struct {
		err error
		pan string
	}
	ch := make(chan out, 1)
	go func() {
		defer func() {
			if r := recover(); r != nil {
				ch <- out{nil, fmt.Sprint(r)}
			}
		}()
		ch <- out{f(), ""}
	}()
	select {
	case o := <-ch:
		return o.err, o.pan
	case <-time.After(hangBound()):
		hangExit(currentCtx, currentCaseJSON, "a builder / pool management call did not return within "+hangBound().String())
	}
	return nil, ""
}

func init() {
	register(&Prop{
		ID:   "C10",
		Rule: "texts: valid rule texts generated by construction (1-4 rules over a 6-name universe overlapping the installed set, bodies drawn from all statement kinds or empty (10% of the rules; an empty-bodied rule exists and yields nothing), optionally an assignment of a generated arithmetic expression with bracket groups and call arguments nested up to depth 5 inside operator chains), the same texts after 1-4 token-level mutations (delete, duplicate, swap, replace/insert a vocabulary token, truncate), texts with a duplicated rule (same name), token soups from the language vocabulary, arbitrary strings / bytes; each text is submitted to all five compile entry points (full build, incremental build, pool construction, pool full update, pool incremental update) from a known installed state S0 of tagged observer rules (builders also from the empty state); oracle: every call returns, the five verdicts agree, a rejected text leaves S0 (names, results, execution order) untouched, an accepted text installs exactly the rules it defines (full) or S0 overridden by them (incremental) - by construction for generated texts, differentially across entry points otherwise - and a repeated rule name is rejected by all. Texts whose estimated compile cost (dsl.ParseCost, bracket groups nested inside operator chains) exceeds 400 are not submitted but counted: known finding compile-cost-blowup. Half of the non-valid texts are followed by a valid text submitted through the same entry points to the same objects and to fresh ones: verdict and installed set must be the same (a rejected text leaves nothing behind). Non-trivial: mutated / duplicated-name / soup text, or a text accepted by at least one entry point; distinct by text hash",
		New:  func() interface{} { return &C10Case{} },
		Gen: func(t *rapid.T) interface{} {
			c := &C10Case{State: "s0"}
			if pct(t, "empty_state", 15) {
				c.State = "empty"
			}
			switch k := uni(t, "kind", 0, 9); {
			case k <= 2:
				c.Kind = "valid"
				c.Text = []byte(c10ValidText(t, c))
			case k <= 6:
				c.Kind = "mutated"
				c.Text = []byte(c10Mutate(t, c10ValidText(t, c)))
				c.Expect, c.Sal = nil, nil
			case k == 7:
				c.Kind = "dupname"
				base := c10ValidText(t, c)
				names := make([]string, 0, len(c.Expect))
				for n := range c.Expect {
					names = append(names, n)
				}
				sort.Strings(names)
				dn := names[uni(t, "dup", 0, len(names)-1)]
				dup := fmt.Sprintf("rule \"%s\" \"again\" salience %d\nbegin\n  S ( @name )\n  return 7\nend\n", dn, uni(t, "dupsal", -1, 3))
				if pct(t, "dup_empty", 30) {
					dup = fmt.Sprintf("rule \"%s\" \"again\" salience %d\nbegin\nend\n", dn, uni(t, "dupsal_e", -1, 3))
				}
				if pct(t, "dup_first", 50) {
					c.Text = []byte(dup + base)
				} else {
					c.Text = []byte(base + dup)
				}
				c.Expect, c.Sal = nil, nil
			case k == 8:
				c.Kind = "soup"
				n := uni(t, "souplen", 0, 40)
				var parts []string
				for i := 0; i < n; i++ {
					parts = append(parts, c10Vocab[uni(t, "soup", 0, len(c10Vocab)-1)])
				}
				c.Text = []byte(strings.Join(parts, " "))
			default:
				c.Kind = "arbitrary"
				if pct(t, "bytes", 50) {
					c.Text = rapid.SliceOfN(rapid.Byte(), 0, 60).Draw(t, "bytes")
				} else {
					c.Text = []byte(rapid.StringN(0, 40, 120).Draw(t, "string"))
				}
			}
			c.PreReject = pct(t, "pre_reject", 15)
			if c.Kind != "valid" && pct(t, "follow", 50) {
				exp, sal := c.Expect, c.Sal
				c.Follow = []byte(c10ValidText(t, c))
				c.Expect, c.Sal = exp, sal
			}
			return c
		},
		Check: func(ci interface{}, x *Ctx) {
			c := ci.(*C10Case)
			text := string(c.Text)
			x.Class("kind:" + c.Kind)
			x.Class("state:" + c.State)
			if tooCostly(x, text) {
				return
			}
			if strings.Contains(text, "zn = ") {
				x.Class("valid-text-with-nested-bracket-expression")
			}
			if c.Kind != "valid" && c.Kind != "arbitrary" {
				x.NonTrivial()
			}
			// candidate names for existence queries
			nameSet := map[string]bool{"s0": true, "s1": true, "s2": true, "n0": true, "n1": true, "n2": true}
			for _, m := range ruleNameRe.FindAllStringSubmatch(text, -1) {
				nameSet[m[1]] = true
			}
			var names []string
			for n := range nameSet {
				names = append(names, n)
			}
			sort.Strings(names)

			type entry struct {
				name string
				tg   *c10Target
				full bool
				err  error
			}
			var es []*entry
			mk := func(name string, full bool, tg *c10Target, e error) {
				if e != nil {
					x.Violation("setup", "cannot set up %s: %v", name, e)
					return
				}
				es = append(es, &entry{name: name, tg: tg, full: full})
			}
			if c10Reuse != nil && c.State == "s0" && len(c10Reuse) == 4 {
				// fuzzing: targets of the previous iteration are reused when that iteration
				// left them (verifiably) in state S0
				for _, n := range []string{"BuildRuleFromString", "BuildRuleWithIncremental", "UpdatePooledRules", "UpdatePooledRulesIncremental"} {
					es = append(es, &entry{name: n, tg: c10Reuse[n], full: n == "BuildRuleFromString" || n == "UpdatePooledRules"})
				}
			} else {
				b1, e1 := newC10Builder(c.State)
				mk("BuildRuleFromString", true, b1, e1)
				b2, e2 := newC10Builder(c.State)
				mk("BuildRuleWithIncremental", false, b2, e2)
				p4, e4 := newC10Pool(c.State)
				mk("UpdatePooledRules", true, p4, e4)
				p5, e5 := newC10Pool(c.State)
				mk("UpdatePooledRulesIncremental", false, p5, e5)
			}
			if x.Failed() {
				return
			}
			if c10Reuse != nil {
				for k := range c10Reuse {
					delete(c10Reuse, k)
				}
				defer func() {
					// keep the targets only if every entry point rejected and nothing went wrong
					if !x.Failed() && x.hasClass("rejected") && c.State == "s0" {
						for _, e := range es {
							c10Reuse[e.name] = e.tg
						}
					}
				}()
			}
			if c.PreReject && c10Reuse == nil {
				x.Class("objects-received-a-rejected-management-call-first")
				for _, e := range es {
					tg := e.tg
					_, pan := guard(func() error {
						if tg.pool != nil {
							return tg.pool.RemoveRules([]string{})
						}
						return tg.rb.RemoveRules(nil)
					})
					if pan != "" {
						x.Violation("panic:RemoveRules-empty", "RemoveRules with an empty list panicked: %s", truncate(pan, 200))
						return
					}
				}
			}
			before := map[string]c10Obs{}
			for _, e := range es {
				before[e.name] = e.tg.observe(names)
			}
			// the five entry points
			verdict := map[string]bool{}
			for _, e := range es {
				var pan string
				switch e.name {
				case "BuildRuleFromString":
					e.err, pan = guard(func() error { return e.tg.rb.BuildRuleFromString(text) })
				case "BuildRuleWithIncremental":
					e.err, pan = guard(func() error { return e.tg.rb.BuildRuleWithIncremental(text) })
				case "UpdatePooledRules":
					e.err, pan = guard(func() error { return e.tg.pool.UpdatePooledRules(text) })
				case "UpdatePooledRulesIncremental":
					e.err, pan = guard(func() error { return e.tg.pool.UpdatePooledRulesIncremental(text) })
				}
				if pan != "" {
					x.Violation("panic:"+e.name, "%s panicked on %q: %s", e.name, truncate(text, 300), truncate(pan, 200))
					return
				}
				verdict[e.name] = e.err == nil
			}
			var p3 *c10Target
			{
				env := newSchedEnv()
				var pool *engine.GenginePool
				err, pan := guard(func() error {
					var e error
					pool, e = engine.NewGenginePool(1, 2, 1, text, c10Apis(env))
					return e
				})
				if pan != "" {
					x.Violation("panic:NewGenginePool", "NewGenginePool panicked on %q: %s", truncate(text, 300), truncate(pan, 200))
					return
				}
				verdict["NewGenginePool"] = err == nil
				if err == nil {
					p3 = &c10Target{pool: pool, env: env}
				}
			}
			acc, rej := []string{}, []string{}
			for n, v := range verdict {
				if v {
					acc = append(acc, n)
				} else {
					rej = append(rej, n)
				}
			}
			sort.Strings(acc)
			sort.Strings(rej)
			if len(acc) > 0 {
				x.Class("accepted")
				x.NonTrivial()
			} else {
				x.Class("rejected")
			}
			if len(acc) > 0 && len(rej) > 0 {
				x.Violation("verdicts-differ:"+strings.Join(rej, "+"), "entry points disagree on %q: accepted by %v, rejected by %v", truncate(text, 400), acc, rej)
				return
			}
			if c.Kind == "valid" && len(rej) > 0 {
				x.Violation("valid-rejected", "a text that is valid by construction was rejected (%v):\n%s", es[0].err, text)
				return
			}
			if c.Kind == "dupname" && len(acc) > 0 {
				x.Violation("dupname-accepted:"+strings.Join(acc, "+"), "a text defining a rule name twice was accepted by %v:\n%s", acc, text)
				return
			}
			// state after the call
			after := map[string]c10Obs{}
			for _, e := range es {
				after[e.name] = e.tg.observe(names)
			}
			if len(acc) == 0 {
				for _, e := range es {
					if before[e.name].key(true) != after[e.name].key(true) {
						x.Violation("reject-not-atomic:"+e.name, "%s rejected the text but the installed rule set changed:\nbefore %s\nafter  %s\ntext %q", e.name, before[e.name].key(true), after[e.name].key(true), truncate(text, 400))
					}
				}
				if len(c.Follow) > 0 && c10Reuse == nil && !x.Failed() {
					// the rejected text must have no effect on a later compile: same verdict and same
					// installed set as on fresh objects in the same state
					x.Class("rejected-text-followed-by-a-valid-text")
					t2 := string(c.Follow)
					submit := func(tg *c10Target, name string) (error, string) {
						switch name {
						case "BuildRuleFromString":
							return guard(func() error { return tg.rb.BuildRuleFromString(t2) })
						case "BuildRuleWithIncremental":
							return guard(func() error { return tg.rb.BuildRuleWithIncremental(t2) })
						case "UpdatePooledRules":
							return guard(func() error { return tg.pool.UpdatePooledRules(t2) })
						}
						return guard(func() error { return tg.pool.UpdatePooledRulesIncremental(t2) })
					}
					for _, e := range es {
						var fresh *c10Target
						var ferr error
						if e.tg.pool != nil {
							fresh, ferr = newC10Pool(c.State)
						} else {
							fresh, ferr = newC10Builder(c.State)
						}
						if ferr != nil {
							x.Violation("setup", "cannot set up a fresh %s target: %v", e.name, ferr)
							return
						}
						err1, pan1 := submit(e.tg, e.name)
						err2, pan2 := submit(fresh, e.name)
						if pan1 != "" || pan2 != "" {
							x.Violation("panic:follow:"+e.name, "%s panicked on the valid follow-up text (after the rejection: %q, fresh: %q)\nrejected text %q\nfollow-up\n%s", e.name, truncate(pan1, 200), truncate(pan2, 200), truncate(text, 300), t2)
							return
						}
						if (err1 == nil) != (err2 == nil) {
							x.Violation("rejected-text-left-traces:verdict:"+e.name, "%s gives another verdict on a valid text after it rejected a text than on a fresh object in the same state: after rejection err=%v, fresh err=%v\nrejected text %q\nfollow-up\n%s", e.name, err1, err2, truncate(text, 300), t2)
							return
						}
						o1, o2 := e.tg.observe(names), fresh.observe(names)
						// the order inside a salience tie is free: compare without order, then check
						// that the run after the rejection is ordered by the saliences now in force
						sal := map[string]int64{}
						if !e.full && c.State == "s0" {
							for n, v := range c10S0Sal {
								sal[n] = v
							}
						}
						for _, m := range c10HeaderRe.FindAllStringSubmatch(t2, -1) {
							v, _ := strconv.ParseInt(m[2], 10, 64)
							sal[m[1]] = v
						}
						for i := 1; i < len(o1.Started) && err1 == nil; i++ {
							if sal[o1.Started[i-1]] < sal[o1.Started[i]] {
								x.Violation("rejected-text-left-traces:order:"+e.name, "after rejecting a text and then accepting a valid one, %s runs the rules as %v, saliences %v\nrejected text %q\nfollow-up\n%s", e.name, o1.Started, sal, truncate(text, 300), t2)
								return
							}
						}
						if k1, k2 := o1.key(false), o2.key(false); k1 != k2 {
							x.Violation("rejected-text-left-traces:set:"+e.name, "after rejecting a text, %s installs from a valid text a different rule set than on a fresh object in the same state:\nafter rejection %s\nfresh           %s\nrejected text %q\nfollow-up\n%s", e.name, k1, k2, truncate(text, 300), t2)
							return
						}
					}
				}
				return
			}
			// accepted: full entry points agree with each other (and with pool construction)
			fullKey := after["BuildRuleFromString"].key(false)
			for _, n := range []string{"UpdatePooledRules"} {
				if k := after[n].key(false); k != fullKey {
					x.Violation("full-differs:"+n, "after accepting the text, %s installed a different set than BuildRuleFromString:\n%s\nvs\n%s\ntext %q", n, k, fullKey, truncate(text, 400))
				}
			}
			if p3 != nil {
				if k := p3.observe(names).key(false); k != fullKey {
					x.Violation("full-differs:NewGenginePool", "NewGenginePool installed a different set than BuildRuleFromString:\n%s\nvs\n%s\ntext %q", k, fullKey, truncate(text, 400))
				}
			}
			{
				if a, b := after["BuildRuleWithIncremental"].key(false), after["UpdatePooledRulesIncremental"].key(false); a != b {
					x.Violation("incremental-differs", "incremental build and pool incremental update installed different sets:\n%s\nvs\n%s\ntext %q", a, b, truncate(text, 400))
				}
			}
			// incremental = S0 (or the empty / cleared state) overridden by the full set
			fullObs := after["BuildRuleFromString"]
			s0 := c10S0
			if c.State != "s0" {
				s0 = map[string]int64{}
			}
			for _, en := range []string{"BuildRuleWithIncremental", "UpdatePooledRulesIncremental"} {
				io := after[en]
				for _, n := range names {
					wantExist := fullObs.Exist[n] || s0[n] != 0
					if io.Exist[n] != wantExist {
						x.Violation("incremental-set:"+en, "%s: rule %q exists=%v, want %v (S0 overridden by the text's rules)\ntext %q", en, n, io.Exist[n], wantExist, truncate(text, 400))
					}
					if fullObs.Exist[n] {
						if io.Results[n] != fullObs.Results[n] {
							x.Violation("incremental-body:"+en, "%s: rule %q yields %q, the text's version yields %q", en, n, io.Results[n], fullObs.Results[n])
						}
					} else if tag, ok := s0[n]; ok && io.Results[n] != fmt.Sprint(tag) {
						x.Violation("incremental-untouched:"+en, "%s: untouched rule %q of S0 yields %q, want %d", en, n, io.Results[n], tag)
					}
				}
			}
			// by construction
			if c.Kind == "valid" {
				for n := range nameSet {
					_, inT := c.Expect[n]
					if fullObs.Exist[n] != inT {
						x.Violation("full-set", "after a full build rule %q exists=%v, want %v\n%s", n, fullObs.Exist[n], inT, text)
					}
				}
				for n, tag := range c.Expect {
					if tag == -1 {
						x.Class("text-with-an-empty-bodied-rule")
						if fullObs.Results[n] != "" {
							x.Violation("full-body", "rule %q has an empty body but yields %q\n%s", n, fullObs.Results[n], text)
						}
						continue
					}
					if fullObs.Results[n] != fmt.Sprint(tag) {
						x.Violation("full-body", "rule %q yields %q, want %d\n%s", n, fullObs.Results[n], tag, text)
					}
				}
				// execution order of the full build: non-increasing salience
				st := after["BuildRuleFromString"].Started
				for i := 1; i < len(st); i++ {
					if c.Sal[st[i-1]] < c.Sal[st[i]] {
						x.Violation("full-order", "full build runs %v, saliences %v", st, c.Sal)
						break
					}
				}
			}
			_ = obs.Free
		},
	})
}

func TestC10(t *testing.T) { runProp(t, "C10") }
