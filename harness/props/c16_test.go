package props

import (
	"sync"
	"fmt"
	"sort"
	"strings"
	"testing"
	"time"

	"github.com/bilibili/gengine/engine"
	"pgregory.net/rapid"

	"verif/gx"
	"verif/models"
	"verif/obs"
)

// C16 - pool management operations and queries agree with the denoted rule set.
type C16Op struct {
	Kind   string    `json:"kind"` // full | refull (byte-identical text of the last full update / construction) | incr | remove | clear | setem | badfull | badincr | probe | exec
	Rules  []C08Rule `json:"rules,omitempty"`
	Remove []string  `json:"remove,omitempty"`
	EM     int       `json:"em,omitempty"`
	Text   string    `json:"text,omitempty"`
	// exec: Method 0 = ExecuteRulesWithMultiInputWithSpecifiedEM, k > 0 = the k-th pool execute
	// method with arguments that schedule the whole denoted set (Salt varies N/M, layering and
	// the order of the name list); Absent selects names outside the denoted set that are added
	// to (or, with OnlyAbsent, replace) the name list of a selected variant
	Method     int  `json:"method,omitempty"`
	Salt       int  `json:"salt,omitempty"`
	B          bool `json:"b,omitempty"`
	Absent     int  `json:"absent,omitempty"`
	OnlyAbsent bool `json:"only_absent,omitempty"`
}

type C16Case struct {
	PoolMin int64     `json:"pool_min"`
	PoolMax int64     `json:"pool_max"`
	EM      int       `json:"em"`
	Init    []C08Rule `json:"init"`
	Ops     []C16Op   `json:"ops"`
}

func c16Text(rules []C08Rule, tagBase int64) (string, map[string]int64) {
	var b strings.Builder
	tags := map[string]int64{}
	for i, r := range rules {
		tag := tagBase + int64(i)
		tags[r.Name] = tag
		sal := " salience " + salText(r.Sal, r.Zeros)
		if r.NoSal {
			sal = ""
		}
		fmt.Fprintf(&b, "rule %q %q%s\nbegin\n  S(@name)\n  info(@name, @sal, @desc)\n  gate(@name)\n  E(@name)\n  return %d\nend\n", r.Name, r.desc(), sal, tag)
	}
	return b.String(), tags
}

var c16BadTexts = []string{"rule \"n0\" begin", "rule \"n1\" \"d\" salience 1 begin x = end", "garbage", "rule \"n2\" begin return 1 end rule \"n2\" begin return 2 end", "rule \"n3\" # begin end", " "}

func init() {
	register(&Prop{
		ID:   "C16",
		Rule: "operation histories of up to 20 steps on one pool (sizes (1,2),(1,3),(2,3),(2,4),(3,6), in 2% of the cases (thorough 0.5%) (64,70),(1,66),(33,34); in 2% of the cases (thorough 0.5%) a set of 130-260 rules replaced as a whole by one incremental update): UpdatePooledRules, UpdatePooledRulesIncremental, RemoveRules (present, absent, repeated names, empty list), ClearPoolRules, SetExecModel (valid and invalid), re-submission of the byte-identical text of the last full or last incremental update, invalid texts for both update kinds, interleaved with single executions and with probe-all executions (max requests parked simultaneously on Hold gates, which forces one request onto every instance, initial and additional); oracle = model (rule map, execution model, cleared flag): after every step IsExist / GetRulesNumber / GetRuleSalience / GetRuleDesc / GetExecModel agree with the model, every execution and every probe result equals the model's rule set with the current tags, every executing rule reports the @sal and @desc the model holds for it (validated against the reference scheduling model of the configured execution model), a cleared pool runs nothing and returns an empty map, updates after clear bring it back, no step panics; a second pool built from the same initial text is unaffected by the whole history. Non-trivial: the history contains clear -> incremental, or remove -> incremental, or an update followed by a probe-all on a pool with max >= 3; distinct by case hash",
		New:  func() interface{} { return &C16Case{} },
		Gen: func(t *rapid.T) interface{} {
			c := &C16Case{}
			sizes := [][2]int64{{1, 2}, {1, 3}, {2, 3}, {2, 4}, {3, 6}}
			s := sizes[uni(t, "pool_size", 0, len(sizes)-1)]
			c.PoolMin, c.PoolMax = s[0], s[1]
			// the thorough tier draws the two expensive classes four times less often (it runs
			// sixty times as many cases)
			rare := func(label string) bool { return !thorough() || pct(t, label, 25) }
			if pct(t, "large_pool", 2) && rare("large_pool_thorough") {
				// more instances than fit one machine word of flags
				big := [][2]int64{{64, 70}, {1, 66}, {33, 34}}
				s = big[uni(t, "large_pool_size", 0, 2)]
				c.PoolMin, c.PoolMax = s[0], s[1]
			}
			c.EM = uni(t, "em", 1, 4)
			c.Init = genC08Rules(t, "init_", 0)
			if pct(t, "large_set", 2) && rare("large_set_thorough") {
				// a rule set of 130-260 rules, replaced as a whole by one incremental update with
				// other saliences, then executed and probed
				nbig := uni(t, "large_set_n", 130, 260)
				c.Init = nil
				var repl []C08Rule
				for i := 0; i < nbig; i++ {
					name := fmt.Sprintf("b%d", i)
					c.Init = append(c.Init, C08Rule{Name: name, Sal: int64(uni(t, fmt.Sprintf("bs%d", i), -50, 50)), Desc: "d0"})
					repl = append(repl, C08Rule{Name: name, Sal: int64(uni(t, fmt.Sprintf("br%d", i), -50, 50)), Desc: "d1"})
				}
				c.Ops = []C16Op{{Kind: "incr", Rules: repl}, {Kind: "exec"}, {Kind: "setem", EM: 1}, {Kind: "exec"}, {Kind: "probe"}}
				return c
			}
			n := uni(t, "nops", 1, 12)
			if thorough() {
				n = uni(t, "nops_t", 1, 20)
			}
			for i := 0; i < n; i++ {
				pfx := fmt.Sprintf("op%d_", i)
				switch k := uni(t, pfx+"kind", 0, 19); {
				case k == 0:
					c.Ops = append(c.Ops, C16Op{Kind: "full", Rules: genC08Rules(t, pfx, i+1)})
				case k == 1:
					if pct(t, pfx+"re_incr", 60) {
						c.Ops = append(c.Ops, C16Op{Kind: "reincr"})
					} else {
						c.Ops = append(c.Ops, C16Op{Kind: "refull"})
					}
				case k <= 5:
					c.Ops = append(c.Ops, C16Op{Kind: "incr", Rules: genC08Rules(t, pfx, i+1)})
				case k <= 8:
					nr := uni(t, pfx+"nrem", 0, 4)
					perm := rapid.Permutation(c08Universe).Draw(t, pfx+"rem")
					rem := append([]string{}, perm[:nr]...)
					if nr > 0 && pct(t, pfx+"remdup", 30) {
						// the same name more than once in one removal list
						for k, n := 0, uni(t, pfx+"ndup", 1, 2); k < n; k++ {
							rem = append(rem, rem[uni(t, fmt.Sprintf("%sdup%d", pfx, k), 0, nr-1)])
						}
					}
					c.Ops = append(c.Ops, C16Op{Kind: "remove", Remove: rem})
				case k <= 10:
					c.Ops = append(c.Ops, C16Op{Kind: "clear"})
				case k == 11:
					c.Ops = append(c.Ops, C16Op{Kind: "setem", EM: uni(t, pfx+"em", -1, 6)})
				case k == 12:
					c.Ops = append(c.Ops, C16Op{Kind: "badfull", Text: c16BadTexts[uni(t, pfx+"bad", 0, len(c16BadTexts)-1)]})
				case k == 13:
					c.Ops = append(c.Ops, C16Op{Kind: "badincr", Text: c16BadTexts[uni(t, pfx+"bad", 0, len(c16BadTexts)-1)]})
				case k <= 16:
					c.Ops = append(c.Ops, C16Op{Kind: "probe"})
				default:
					op := C16Op{Kind: "exec"}
					if pct(t, pfx+"anymethod", 60) {
						op.Method = uni(t, pfx+"method", 1, 24)
						op.Salt = uni(t, pfx+"salt", 0, 5)
						op.B = rapid.Bool().Draw(t, pfx+"b")
						if pct(t, pfx+"absent", 45) {
							op.Absent = uni(t, pfx+"absentmask", 1, 255)
							op.OnlyAbsent = pct(t, pfx+"onlyabsent", 40)
							// absent names only matter to the selected variants without an N/M split
							var sel []int
							for i, n := range gx.MethodNames(true) {
								if m, _ := gx.Lookup(n); m.Selected && !m.NM {
									sel = append(sel, i+1)
								}
							}
							op.Method = sel[uni(t, pfx+"selmethod", 0, len(sel)-1)]
						}
					}
					c.Ops = append(c.Ops, op)
				}
			}
			if c.Ops[len(c.Ops)-1].Kind != "probe" {
				c.Ops = append(c.Ops, C16Op{Kind: "probe"})
			}
			return c
		},
		Check: checkC16,
	})
}

func checkC16(ci interface{}, x *Ctx) {
	c := ci.(*C16Case)
	env := newSchedEnv()
	text0, tags0 := c16Text(c.Init, 0)
	// every rule body reports the salience and description it was compiled with
	type c16Info struct {
		name, desc string
		sal        int64
	}
	var infoMu sync.Mutex
	var infos []c16Info
	apis := env.apis()
	apis["info"] = func(n string, sal int64, desc string) {
		infoMu.Lock()
		infos = append(infos, c16Info{n, desc, sal})
		infoMu.Unlock()
	}
	p, err := engine.NewGenginePool(c.PoolMin, c.PoolMax, c.EM, text0, apis)
	if err != nil {
		x.Violation("setup", "NewGenginePool rejected a valid text: %v", err)
		return
	}
	// a second pool built from the very same text: nothing done to the first may show in it
	twinApis := newSchedEnv().apis() // its own observers
	twinApis["info"] = func(n string, sal int64, desc string) {}
	twin, terr := engine.NewGenginePool(c.PoolMin, c.PoolMax, c.EM, text0, twinApis)
	if terr != nil {
		x.Violation("setup", "NewGenginePool rejected a valid text: %v", terr)
		return
	}
	// the second pool is queried and executed by another goroutine while the history runs
	twinStop, twinDone := make(chan struct{}), make(chan struct{})
	go func() {
		defer close(twinDone)
		defer func() { recover() }()
		for {
			select {
			case <-twinStop:
				return
			default:
			}
			twin.GetRulesNumber()
			twin.IsExist(c08Universe)
			twin.Execute(map[string]interface{}{"stag": &engine.Stag{}}, true)
			time.Sleep(300 * time.Microsecond)
		}
	}()
	defer func() {
		close(twinStop)
		select {
		case <-twinDone:
		case <-time.After(hangBound()):
		}
		if x.Failed() {
			return
		}
		_, pan := guard(func() error {
			ex := twin.IsExist(c08Universe)
			n := 0
			for i, name := range c08Universe {
				want := false
				for _, r := range c.Init {
					if r.Name == name {
						want = true
					}
				}
				if ex[i] != want {
					x.Violation("twin-pool-changed", "a second pool built from the same text reports IsExist(%q)=%v after the history on the first pool, want %v\nhistory %s", name, ex[i], want, jsonStr(c.Ops))
					return nil
				}
			}
			names := map[string]bool{}
			for _, r := range c.Init {
				names[r.Name] = true
			}
			n = len(names)
			if got := twin.GetRulesNumber(); got != n {
				x.Violation("twin-pool-changed", "a second pool built from the same text reports %d rules after the history on the first pool, want %d\nhistory %s", got, n, jsonStr(c.Ops))
			}
			return nil
		})
		if pan != "" {
			x.Violation("panic:twin-pool", "queries on the second pool panicked: %s", truncate(pan, 200))
		}
	}()
	tg := &schedTarget{pool: p, env: env}
	model := map[string]c08Entry{}
	for _, r := range c.Init {
		model[r.Name] = c08Entry{r.Sal, r.desc(), tags0[r.Name]}
	}
	// checkInfos compares what the rule bodies reported since the last call with the model
	checkInfos := func(step int) bool {
		infoMu.Lock()
		recs := infos
		infos = nil
		infoMu.Unlock()
		for _, r := range recs {
			e, ok := model[r.name]
			if !ok {
				continue // a rule outside the denoted set that runs is reported by the scheduling oracle
			}
			if r.sal != e.sal || r.desc != e.desc {
				x.Violation("meta:executing-rule", "step %d: rule %q reports @sal=%d @desc=%q while it executes, the pool's queries and the model say %d and %q", step, r.name, r.sal, truncate(r.desc, 80), e.sal, truncate(e.desc, 80))
				return false
			}
		}
		return true
	}
	em := c.EM
	cleared := false
	lastMgmt := ""
	updatedSinceProbe := true
	hist := func(step int) string { return jsonStr(c.Ops[:step+1]) }
	lastFullText, lastFullRules, lastFullTags := text0, c.Init, tags0
	var lastIncrText string
	var lastIncrRules []C08Rule
	var lastIncrTags map[string]int64
	for step, op := range c.Ops {
		var opErr error
		var pan string
		sig := op.Kind
		if cleared {
			sig += "-after-clear"
		}
		switch op.Kind {
		case "refull":
			x.Class("identical-full-text-resubmitted")
			opErr, pan = guard(func() error { return p.UpdatePooledRules(lastFullText) })
			if opErr == nil && pan == "" {
				model = map[string]c08Entry{}
				for _, r := range lastFullRules {
					model[r.Name] = c08Entry{r.Sal, r.desc(), lastFullTags[r.Name]}
				}
				cleared = false
			}
			updatedSinceProbe = true
		case "reincr":
			if lastIncrText == "" {
				continue
			}
			x.Class("identical-incr-text-resubmitted")
			if lastMgmt != "incr" {
				x.Class("identical-incr-text-after-other-change")
			}
			opErr, pan = guard(func() error { return p.UpdatePooledRulesIncremental(lastIncrText) })
			if opErr == nil && pan == "" {
				for _, r := range lastIncrRules {
					model[r.Name] = c08Entry{r.Sal, r.desc(), lastIncrTags[r.Name]}
				}
				cleared = false
			}
			updatedSinceProbe = true
		case "full":
			text, tags := c16Text(op.Rules, int64((step+1)*100))
			lastFullText, lastFullRules, lastFullTags = text, op.Rules, tags
			opErr, pan = guard(func() error { return p.UpdatePooledRules(text) })
			if opErr == nil && pan == "" {
				model = map[string]c08Entry{}
				for _, r := range op.Rules {
					model[r.Name] = c08Entry{r.Sal, r.desc(), tags[r.Name]}
				}
				cleared = false
			}
			updatedSinceProbe = true
		case "incr":
			text, tags := c16Text(op.Rules, int64((step+1)*100))
			lastIncrText, lastIncrRules, lastIncrTags = text, op.Rules, tags
			if lastMgmt == "clear" {
				x.Class("clear-then-incremental")
				x.NonTrivial()
			}
			if lastMgmt == "remove" {
				x.Class("remove-then-incremental")
				x.NonTrivial()
			}
			opErr, pan = guard(func() error { return p.UpdatePooledRulesIncremental(text) })
			if opErr == nil && pan == "" {
				for _, r := range op.Rules {
					model[r.Name] = c08Entry{r.Sal, r.desc(), tags[r.Name]}
				}
				cleared = false
			}
			updatedSinceProbe = true
		case "remove":
			opErr, pan = guard(func() error { return p.RemoveRules(op.Remove) })
			if opErr == nil && pan == "" {
				for _, n := range op.Remove {
					delete(model, n)
				}
			}
			updatedSinceProbe = true
		case "clear":
			_, pan = guard(func() error { p.ClearPoolRules(); return nil })
			model = map[string]c08Entry{}
			cleared = true
		case "setem":
			opErr, pan = guard(func() error { return p.SetExecModel(op.EM) })
			valid := op.EM >= 1 && op.EM <= 4
			if valid != (opErr == nil) && pan == "" {
				x.Violation("setem-verdict", "step %d: SetExecModel(%d) returned %v\nhistory %s", step, op.EM, opErr, hist(step))
				return
			}
			if valid {
				em = op.EM
			}
		case "badfull":
			opErr, pan = guard(func() error { return p.UpdatePooledRules(op.Text) })
			if opErr == nil && pan == "" {
				x.Violation("bad-text-accepted:full", "step %d: UpdatePooledRules accepted the invalid text %q\nhistory %s", step, op.Text, hist(step))
				return
			}
		case "badincr":
			opErr, pan = guard(func() error { return p.UpdatePooledRulesIncremental(op.Text) })
			if opErr == nil && pan == "" {
				x.Violation("bad-text-accepted:incr", "step %d: UpdatePooledRulesIncremental accepted the invalid text %q\nhistory %s", step, op.Text, hist(step))
				return
			}
		}
		if pan != "" {
			x.Violation("panic:"+sig, "step %d (%s) panicked: %s\nhistory %s", step, op.Kind, truncate(pan, 200), hist(step))
			return
		}
		switch op.Kind {
		case "full", "incr", "refull", "reincr":
			if opErr != nil {
				x.Violation("op-rejected:"+sig, "step %d (%s) rejected a valid update: %v\nhistory %s", step, op.Kind, opErr, hist(step))
				return
			}
		case "remove":
			// removal with an empty list, or on a cleared pool, may be an error or a no-op
			if opErr != nil && len(op.Remove) > 0 && !cleared {
				x.Violation("op-rejected:"+sig, "step %d: RemoveRules(%v) failed: %v\nhistory %s", step, op.Remove, opErr, hist(step))
				return
			}
		}
		if op.Kind != "probe" && op.Kind != "exec" && op.Kind != "setem" && op.Kind != "badfull" && op.Kind != "badincr" {
			lastMgmt = op.Kind
		}
		// queries
		var qpan string
		var exist []bool
		var num, gem int
		sal := map[string]int64{}
		salErr := map[string]bool{}
		desc := map[string]string{}
		_, qpan = guard(func() error {
			exist = p.IsExist(c08Universe)
			num = p.GetRulesNumber()
			gem = p.GetExecModel()
			for _, n := range c08Universe {
				s, e := p.GetRuleSalience(n)
				sal[n], salErr[n] = s, e != nil
				d, _ := p.GetRuleDesc(n)
				desc[n] = d
			}
			return nil
		})
		if qpan != "" {
			x.Violation("panic:query-after-"+sig, "queries after step %d (%s) panicked: %s\nhistory %s", step, op.Kind, truncate(qpan, 200), hist(step))
			return
		}
		if num != len(model) {
			x.Violation("query-count:after-"+sig, "step %d: GetRulesNumber=%d, the denoted set has %d rules\nhistory %s", step, num, len(model), hist(step))
			return
		}
		if gem != em {
			x.Violation("query-em", "step %d: GetExecModel=%d, want %d\nhistory %s", step, gem, em, hist(step))
			return
		}
		for i, n := range c08Universe {
			e, ok := model[n]
			if exist[i] != ok {
				x.Violation("query-exist:after-"+sig, "step %d: IsExist(%q)=%v, want %v\nhistory %s", step, n, exist[i], ok, hist(step))
				return
			}
			if ok && (salErr[n] || sal[n] != e.sal || desc[n] != e.desc) {
				x.Violation("query-meta:after-"+sig, "step %d: rule %q salience=%d (err %v) desc=%q, want %d %q\nhistory %s", step, n, sal[n], salErr[n], desc[n], e.sal, e.desc, hist(step))
				return
			}
			if !ok && !salErr[n] {
				x.Violation("query-meta:absent", "step %d: GetRuleSalience(%q) succeeded for an absent rule\nhistory %s", step, n, hist(step))
				return
			}
		}
		if op.Kind != "probe" && op.Kind != "exec" {
			continue
		}
		// executions
		var mrules []models.Rule
		var names []string
		for n, e := range model {
			mrules = append(mrules, models.Rule{Name: n, Sal: e.sal, Returns: true, RetVal: e.tag})
			names = append(names, n)
		}
		sort.Strings(names)
		if op.Kind == "exec" || len(model) == 0 {
			env.log.Reset()
			env.gates.Reopen()
			call := gx.Call{Method: "ExecuteRulesWithMultiInputWithSpecifiedEM"}
			if op.Method > 0 && len(model) > 0 && !cleared {
				ms := gx.MethodNames(true)
				mname := ms[(op.Method-1)%len(ms)]
				ordered := append([]string{}, names...)
				sort.SliceStable(ordered, func(i, j int) bool { return model[ordered[i]].sal > model[ordered[j]].sal })
				m, _ := gx.Lookup(mname)
				if m.NM && len(ordered) < 2 {
					mname = "Execute"
					m, _ = gx.Lookup(mname)
				}
				call = fullCall(mname, ordered, op.Salt)
				call.B = op.B
				if m.Selected && !m.NM && op.Absent != 0 {
					var abs []string
					for i, n := range c08Universe {
						if _, ok := model[n]; !ok && (op.Absent>>uint(i))&1 == 1 {
							abs = append(abs, n)
						}
					}
					if len(abs) > 0 {
						x.Class("selected-execution-naming-removed-or-absent-rules")
						if op.OnlyAbsent {
							call.Names = abs
							x.Class("selected-execution-naming-only-absent-rules")
						} else {
							call.Names = append(call.Names, abs...)
						}
					}
				}
				x.Class("exec-method:" + mname)
			}
			res := runWithSchedule(x, tg, call, nil, time.Millisecond)
			in := models.Input{Rules: mrules, Call: call, EM: em, Cleared: cleared, Trace: env.log.Snapshot(), Err: res.Err != nil, Panic: res.Panic, Result: res.Map}
			for _, v := range models.Validate(in) {
				x.Violation("exec:"+v.Kind, "step %d: execution (em=%d, cleared=%v) disagrees with the denoted set %v: %s\nhistory %s", step, em, cleared, names, v.Msg, hist(step))
			}
			if x.Failed() || !checkInfos(step) {
				return
			}
			if cleared {
				x.Class("execution-on-cleared-pool")
			}
			continue
		}
		// probe-all: one request on every instance simultaneously
		if updatedSinceProbe && c.PoolMax >= 3 {
			x.Class("update-then-probe-all-max>=3")
			x.NonTrivial()
		}
		updatedSinceProbe = false
		env.log.Reset()
		park := names[0]
		for _, n := range names { // park in the highest-salience rule so that every model reaches it first
			if model[n].sal > model[park].sal {
				park = n
			}
		}
		results := probeAllMethod(x, tg, int(c.PoolMax), park, gx.Call{Method: "ExecuteRulesWithMultiInputWithSpecifiedEM"}, fmt.Sprintf("step %d", step))
		for i, r := range results {
			if r.Panic != "" || r.Err != nil {
				x.Violation("probe-error", "step %d: probe request %d failed: err=%v panic=%s\nhistory %s", step, i, r.Err, r.Panic, hist(step))
				return
			}
			for n, e := range model {
				if fmt.Sprint(r.Map[n]) != fmt.Sprint(e.tag) {
					x.Violation("probe-stale-instance", "step %d: one of the %d simultaneous requests (each on its own instance) returned %v for rule %q, the denoted version returns %d; result %v\nhistory %s", step, c.PoolMax, r.Map[n], n, e.tag, sortedMap(r.Map), hist(step))
					return
				}
			}
			if len(r.Map) != len(model) {
				x.Violation("probe-extra-rules", "step %d: a probe request returned %v, the denoted set is %v\nhistory %s", step, sortedMap(r.Map), names, hist(step))
				return
			}
		}
		if !checkInfos(step) {
			return
		}
	}
	_ = obs.Free
}

// probeAllMethod is probeAll with an arbitrary call.
func probeAllMethod(x *Ctx, tg *schedTarget, max int, parkRule string, call gx.Call, what string) []gx.Result {
	g := tg.env.gatesForProbe()
	g.Set(parkRule, obs.Hold, 0)
	results := make([]gx.Result, max)
	done := make(chan int, max)
	for i := 0; i < max; i++ {
		go func(i int) {
			results[i] = tg.invoke(call)
			done <- i
		}(i)
	}
	deadline := time.After(hangBound())
	tick := time.NewTicker(200 * time.Microsecond)
	defer tick.Stop()
	for arrived := false; !arrived; {
		select {
		case <-tick.C:
			arrived = int(g.InGate()) >= max
		case <-deadline:
			n := g.InGate()
			g.ReleaseAll()
			hangExit(x, currentCaseJSON, fmt.Sprintf("pool of max %d: only %d of %d simultaneous requests reached their rule (%s)", max, n, max, what))
		}
	}
	g.ReleaseAll()
	for i := 0; i < max; i++ {
		select {
		case <-done:
		case <-time.After(hangBound()):
			hangExit(x, currentCaseJSON, "probe requests did not finish after release ("+what+")")
		}
	}
	return results
}

func TestC16(t *testing.T) { runProp(t, "C16") }
