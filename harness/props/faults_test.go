package props

import (
	"fmt"

	"verif/dsl"
	"verif/obs"
)

// Fault catalogue shared by C09 (containment) and C20 (error positions): every entry is a
// single faulty construct, either an expression or a statement, with the citation class
// of C20: "must" (arithmetic faults, comparison and logic type faults, failing calls,
// failing assignments always cite a position), "may" (if a position is cited it must be
// right).
type faultSpec struct {
	Name string
	Expr func() *dsl.Expr // expression fault
	Stmt func() *dsl.Stmt // statement fault
	Cite string           // must | may
	// Pre is a healthy statement that must precede the fault (e.g. a local it uses).
	Pre func() *dsl.Stmt
	// OwnRecover: the faulty construct is (inside) an assignment or a call, the constructs
	// that install their own recover.
	OwnRecover bool
	// NoLoop: may only be placed outside loops (break / continue outside a loop).
	NoLoop bool
	// BoolValued: the faulty expression stands where a boolean is wanted.
	BoolValued bool
	// Inner designates the sub-expression that actually fails (default: the root).
	Inner func(root *dsl.Expr) *dsl.Expr
	// Places, if set, restricts an expression fault to these placements (the construct is
	// only faulty there).
	Places []string
}

func i(v int64) *dsl.Expr { return dsl.Int(v) }

var faultCatalogue = []faultSpec{
	{Name: "arith-int-plus-string", Cite: "must", Expr: func() *dsl.Expr { return dsl.Bin("+", i(1), dsl.Str("a")) }},
	{Name: "arith-stringfield-times-int", Cite: "must", Expr: func() *dsl.Expr { return dsl.Bin("*", dsl.Var("W.S"), i(2)) }},
	{Name: "arith-bool-minus-int", Cite: "must", Expr: func() *dsl.Expr { return dsl.Bin("-", dsl.Bool(true), i(1)) }},
	{Name: "arith-nested", Cite: "must", Expr: func() *dsl.Expr { return dsl.Bin("+", i(4), dsl.Bin("*", i(2), dsl.Str("q"))) }, Inner: func(r *dsl.Expr) *dsl.Expr { return r.R }},
	// the failing operation sits inside brackets that the precedence requires
	{Name: "arith-bracketed-sum-times", Cite: "must", Expr: func() *dsl.Expr { return dsl.Bin("*", i(2), dsl.Bin("+", i(1), dsl.Str("a"))) }, Inner: func(r *dsl.Expr) *dsl.Expr { return r.R }},
	{Name: "div-bracketed-zero", Cite: "must", Expr: func() *dsl.Expr { return dsl.Bin("-", i(9), dsl.Bin("/", i(5), dsl.Bin("-", i(3), i(3)))) }, Inner: func(r *dsl.Expr) *dsl.Expr { return r.R }},
	{Name: "cmp-bracketed-string-int", Cite: "must", BoolValued: true, Expr: func() *dsl.Expr { return dsl.Bin("==", dsl.Bool(true), dsl.Bin("<", dsl.Str("a"), i(1))) }, Inner: func(r *dsl.Expr) *dsl.Expr { return r.R }},
	{Name: "div-int-zero", Cite: "must", Expr: func() *dsl.Expr { return dsl.Bin("/", i(5), i(0)) }},
	{Name: "div-expr-zero", Cite: "must", Expr: func() *dsl.Expr { return dsl.Bin("/", dsl.Var("W.N"), dsl.Bin("-", i(3), i(3))) }},
	{Name: "div-float-zero", Cite: "must", Expr: func() *dsl.Expr { return dsl.Bin("/", dsl.Real(2.5), dsl.Real(0)) }},
	{Name: "div-uint-zero", Cite: "must", Expr: func() *dsl.Expr { return dsl.Bin("/", i(7), dsl.Var("uz")) }},
	{Name: "cmp-string-int", Cite: "must", BoolValued: true, Expr: func() *dsl.Expr { return dsl.Bin("<", dsl.Str("a"), i(1)) }},
	{Name: "cmp-bool-order", Cite: "must", BoolValued: true, Expr: func() *dsl.Expr { return dsl.Bin(">", dsl.Bool(true), dsl.Bool(false)) }},
	{Name: "cmp-int-bool", Cite: "must", BoolValued: true, Expr: func() *dsl.Expr { return dsl.Bin("==", dsl.Var("W.N"), dsl.Var("W.B")) }},
	// an interface-typed field is not a number, whatever it holds: comparing it with one is a comparison type fault
	{Name: "cmp-interface-field-int", Cite: "must", BoolValued: true, Expr: func() *dsl.Expr { return dsl.Bin("<", dsl.Var("O.Any"), i(1)) }},
	{Name: "cmp-int-nil-interface-field", Cite: "must", BoolValued: true, Expr: func() *dsl.Expr { return dsl.Bin(">=", i(2), dsl.Var("O.NilAny")) }},
	{Name: "logic-int-and-bool", Cite: "must", BoolValued: true, Expr: func() *dsl.Expr { return dsl.Bin("&&", i(1), dsl.Bool(true)) }},
	{Name: "logic-bool-or-string", Cite: "must", BoolValued: true, Expr: func() *dsl.Expr { return dsl.Bin("||", dsl.Bool(false), dsl.Str("x")) }},
	{Name: "not-int", Cite: "may", BoolValued: true, Expr: func() *dsl.Expr { return dsl.Not(i(5)) }},
	{Name: "not-paren-sum", Cite: "may", BoolValued: true, Expr: func() *dsl.Expr { return dsl.Not(dsl.Bin("+", i(1), i(2))) }},
	{Name: "not-string-field", Cite: "may", BoolValued: true, Expr: func() *dsl.Expr { return dsl.Not(dsl.Var("W.S")) }},
	{Name: "missing-variable", Cite: "may", Expr: func() *dsl.Expr { return dsl.Var("nosuch") }},
	{Name: "missing-field", Cite: "may", Expr: func() *dsl.Expr { return dsl.Bin("+", dsl.Var("W.Nope"), i(1)) }},
	{Name: "missing-object-field", Cite: "may", Expr: func() *dsl.Expr { return dsl.Var("nobj.F") }},
	{Name: "nil-pointer-field-read", Cite: "may", Expr: func() *dsl.Expr { return dsl.Var("nilp.N") }},
	{Name: "nil-pointer-two-level-read", Cite: "may", Expr: func() *dsl.Expr { return dsl.Var("O.NilIn.V") }},
	{Name: "index-out-of-range-literal", Cite: "may", Expr: func() *dsl.Expr { return dsl.Index("sl", i(99)) }},
	{Name: "index-out-of-range-variable", Cite: "may", Expr: func() *dsl.Expr { return dsl.Index("sl", dsl.Var("big")) }},
	{Name: "index-negative-literal", Cite: "may", Expr: func() *dsl.Expr { return dsl.Index("sl", i(-1)) }},
	{Name: "index-negative-variable", Cite: "may", Expr: func() *dsl.Expr { return dsl.Index("sl", dsl.Var("neg")) }},
	{Name: "index-string-on-slice", Cite: "may", Expr: func() *dsl.Expr { return dsl.Index("sl", dsl.Str("a")) }},
	{Name: "index-int-key-on-string-map", Cite: "may", Expr: func() *dsl.Expr { return dsl.Index("m", i(5)) }},
	{Name: "index-array-out-of-range", Cite: "may", Expr: func() *dsl.Expr { return dsl.Index("W.Arr", i(7)) }},
	{Name: "index-empty-slice", Cite: "may", Expr: func() *dsl.Expr { return dsl.Index("emptysl", i(0)) }},
	{Name: "index-missing-container", Cite: "may", Expr: func() *dsl.Expr { return dsl.Index("nosuchc", i(0)) }},
	{Name: "index-scalar", Cite: "may", Expr: func() *dsl.Expr { return dsl.Index("scalar", i(0)) }},
	{Name: "index-missing-key-variable", Cite: "may", Expr: func() *dsl.Expr { return dsl.Index("m", dsl.Var("nokey")) }},
	{Name: "index-through-nil-pointer", Cite: "may", Expr: func() *dsl.Expr { return dsl.Index("nilsl", i(0)) }},
	// a value read from an unexported field can be computed with, stored and passed on (it is
	// converted on the way), but it cannot be returned as it is: reflect refuses to hand it out
	{Name: "unexported-field-value-leaves-the-rule", Cite: "may", Expr: func() *dsl.Expr { return dsl.Var("O.hid") }, Places: []string{"return"}},
	{Name: "call-missing-function", Cite: "must", OwnRecover: true, Expr: func() *dsl.Expr { return dsl.Call("nofunc", i(1)) }},
	{Name: "call-missing-function-no-arguments", Cite: "must", OwnRecover: true, Expr: func() *dsl.Expr { return dsl.Call("nofunc0") }},
	{Name: "call-missing-method-with-argument", Cite: "must", OwnRecover: true, Expr: func() *dsl.Expr { return dsl.Call("O.Nope", i(1)) }},
	{Name: "call-missing-three-level-method", Cite: "must", OwnRecover: true, Expr: func() *dsl.Expr { return dsl.Call("O.In.Nope") }},
	{Name: "call-missing-method", Cite: "must", OwnRecover: true, Expr: func() *dsl.Expr { return dsl.Call("O.Nope") }},
	{Name: "call-missing-object", Cite: "must", OwnRecover: true, Expr: func() *dsl.Expr { return dsl.Call("nobj.Get") }},
	{Name: "call-panicking-function", Cite: "must", OwnRecover: true, Expr: func() *dsl.Expr { return dsl.Call("boom") }},
	{Name: "call-panicking-method", Cite: "must", OwnRecover: true, Expr: func() *dsl.Expr { return dsl.Call("O.Boom") }},
	{Name: "call-panicking-three-level", Cite: "must", OwnRecover: true, Expr: func() *dsl.Expr { return dsl.Call("O.In.Boom") }},
	{Name: "call-too-few-arguments", Cite: "must", OwnRecover: true, Expr: func() *dsl.Expr { return dsl.Call("ok") }},
	{Name: "call-too-many-arguments", Cite: "must", OwnRecover: true, Expr: func() *dsl.Expr { return dsl.Call("ok", i(1), i(2)) }},
	{Name: "call-ill-typed-argument", Cite: "must", OwnRecover: true, Expr: func() *dsl.Expr { return dsl.Call("ok", dsl.Str("s")) }},
	{Name: "call-method-too-many-arguments", Cite: "must", OwnRecover: true, Expr: func() *dsl.Expr { return dsl.Call("O.Get", i(1)) }},
	{Name: "call-method-on-nil-field", Cite: "must", OwnRecover: true, Expr: func() *dsl.Expr { return dsl.Call("O.NilIn.Get") }},
	{Name: "call-three-level-missing-field", Cite: "must", OwnRecover: true, Expr: func() *dsl.Expr { return dsl.Call("O.Nofield.Get") }},
	{Name: "call-on-nil-pointer-object", Cite: "must", OwnRecover: true, Expr: func() *dsl.Expr { return dsl.Call("nilo.Get") }},

	{Name: "assign-to-unassignable-name", Cite: "must", OwnRecover: true, Stmt: func() *dsl.Stmt { return dsl.Assign(dsl.Var("scalar"), "=", i(5)) }},
	{Name: "compound-ill-typed-field", Cite: "must", OwnRecover: true, Stmt: func() *dsl.Stmt { return dsl.Assign(dsl.Var("W.S"), "-=", i(1)) }},
	{Name: "compound-ill-typed-local", Cite: "must", OwnRecover: true, Pre: func() *dsl.Stmt { return dsl.Assign(dsl.Var("ca"), "=", i(1)) }, Stmt: func() *dsl.Stmt { return dsl.Assign(dsl.Var("ca"), "+=", dsl.Str("x")) }},
	{Name: "compound-on-undefined-local", Cite: "must", OwnRecover: true, Stmt: func() *dsl.Stmt { return dsl.Assign(dsl.Var("undef1"), "+=", i(1)) }},
	{Name: "compound-divide-by-zero", Cite: "must", OwnRecover: true, Stmt: func() *dsl.Stmt { return dsl.Assign(dsl.Var("W.N"), "/=", i(0)) }},
	{Name: "store-string-into-int-field", Cite: "must", OwnRecover: true, Stmt: func() *dsl.Stmt { return dsl.Assign(dsl.Var("W.N"), "=", dsl.Str("str")) }},
	{Name: "store-int-into-bool-field", Cite: "must", OwnRecover: true, Stmt: func() *dsl.Stmt { return dsl.Assign(dsl.Var("W.B"), "=", i(1)) }},
	{Name: "store-int-into-string-field", Cite: "must", OwnRecover: true, Stmt: func() *dsl.Stmt { return dsl.Assign(dsl.Var("W.S"), "=", i(5)) }},
	{Name: "store-bool-into-float-field", Cite: "must", OwnRecover: true, Stmt: func() *dsl.Stmt { return dsl.Assign(dsl.Var("W.F"), "=", dsl.Bool(true)) }},
	{Name: "store-string-into-uint-field", Cite: "must", OwnRecover: true, Stmt: func() *dsl.Stmt { return dsl.Assign(dsl.Var("W.U"), "=", dsl.Str("7")) }},
	{Name: "store-out-of-range-slice", Cite: "must", OwnRecover: true, Stmt: func() *dsl.Stmt { return dsl.Assign(dsl.Index("sl", i(99)), "=", i(1)) }},
	{Name: "store-out-of-range-array", Cite: "must", OwnRecover: true, Stmt: func() *dsl.Stmt { return dsl.Assign(dsl.Index("W.Arr", i(9)), "=", i(1)) }},
	{Name: "store-negative-index", Cite: "must", OwnRecover: true, Stmt: func() *dsl.Stmt { return dsl.Assign(dsl.Index("sl", i(-2)), "=", i(1)) }},
	{Name: "store-into-plain-array", Cite: "must", OwnRecover: true, Stmt: func() *dsl.Stmt { return dsl.Assign(dsl.Index("arrv", i(0)), "=", i(1)) }},
	{Name: "store-string-into-int-pointer", Cite: "must", OwnRecover: true, Stmt: func() *dsl.Stmt { return dsl.Assign(dsl.Var("pint"), "=", dsl.Str("x")) }},
	{Name: "store-int-into-string-pointer", Cite: "must", OwnRecover: true, Stmt: func() *dsl.Stmt { return dsl.Assign(dsl.Var("pstr"), "=", i(5)) }},
	{Name: "store-bool-into-int-element", Cite: "must", OwnRecover: true, Stmt: func() *dsl.Stmt { return dsl.Assign(dsl.Index("sl", i(0)), "=", dsl.Bool(true)) }},
	{Name: "store-string-into-int-map-value", Cite: "must", OwnRecover: true, Stmt: func() *dsl.Stmt { return dsl.Assign(dsl.Index("m", dsl.Str("k1")), "=", dsl.Str("v")) }},
	{Name: "store-with-int-key-on-string-map", Cite: "must", OwnRecover: true, Stmt: func() *dsl.Stmt { return dsl.Assign(dsl.Index("m", i(3)), "=", i(1)) }},
	{Name: "store-three-level-field-of-missing-object", Cite: "must", OwnRecover: true, Stmt: func() *dsl.Stmt { return dsl.Assign(dsl.Var("nobj.In.V"), "=", i(1)) }},
	{Name: "store-three-level-field-through-nil", Cite: "must", OwnRecover: true, Stmt: func() *dsl.Stmt { return dsl.Assign(dsl.Var("O.NilIn.V"), "=", i(1)) }},
	{Name: "store-field-of-missing-object", Cite: "must", OwnRecover: true, Stmt: func() *dsl.Stmt { return dsl.Assign(dsl.Var("nobj.F"), "=", i(1)) }},
	{Name: "store-missing-field", Cite: "must", OwnRecover: true, Stmt: func() *dsl.Stmt { return dsl.Assign(dsl.Var("W.Nope"), "=", i(1)) }},
	{Name: "store-field-through-nil-pointer", Cite: "must", OwnRecover: true, Stmt: func() *dsl.Stmt { return dsl.Assign(dsl.Var("nilp.N"), "=", i(1)) }},
	{Name: "store-into-nil-map", Cite: "must", OwnRecover: true, Stmt: func() *dsl.Stmt { return dsl.Assign(dsl.Index("nilm", dsl.Str("k")), "=", i(1)) }},
	{Name: "store-field-of-value-struct", Cite: "must", OwnRecover: true, Stmt: func() *dsl.Stmt { return dsl.Assign(dsl.Var("VS.N"), "=", i(1)) }},

	{Name: "if-condition-int", Cite: "may", Stmt: func() *dsl.Stmt {
		return &dsl.Stmt{K: dsl.SIf, Cond: i(1), Then: &dsl.Block{Stmts: []*dsl.Stmt{dsl.CallStmt(dsl.Call("tr", i(71)))}}}
	}},
	{Name: "if-condition-string", Cite: "may", Stmt: func() *dsl.Stmt {
		return &dsl.Stmt{K: dsl.SIf, Cond: dsl.Var("W.S"), Then: &dsl.Block{Stmts: []*dsl.Stmt{dsl.CallStmt(dsl.Call("tr", i(72)))}}}
	}},
	{Name: "else-if-condition-string", Cite: "may", Stmt: func() *dsl.Stmt {
		return &dsl.Stmt{K: dsl.SIf, Cond: dsl.Bool(false), Then: &dsl.Block{Stmts: []*dsl.Stmt{dsl.CallStmt(dsl.Call("tr", i(73)))}},
			ElseIfs: []dsl.ElseIf{{Cond: dsl.Str("s"), Body: &dsl.Block{Stmts: []*dsl.Stmt{dsl.CallStmt(dsl.Call("tr", i(74)))}}}}}
	}},
	{Name: "for-condition-int", Cite: "may", Stmt: func() *dsl.Stmt {
		return &dsl.Stmt{K: dsl.SFor, Init: dsl.Assign(dsl.Var("fi"), "=", i(0)), Cond: i(5), Step: dsl.Assign(dsl.Var("fi"), "+=", i(1)),
			Body: &dsl.Block{Stmts: []*dsl.Stmt{dsl.CallStmt(dsl.Call("tr", i(75)))}}}
	}},
	{Name: "forrange-over-scalar", Cite: "may", Stmt: func() *dsl.Stmt {
		return &dsl.Stmt{K: dsl.SForRange, KeyVar: "fk", Coll: "scalar", Body: &dsl.Block{Stmts: []*dsl.Stmt{dsl.CallStmt(dsl.Call("tr", i(76)))}}}
	}},
	{Name: "forrange-over-missing-name", Cite: "may", Stmt: func() *dsl.Stmt {
		return &dsl.Stmt{K: dsl.SForRange, KeyVar: "fk", Coll: "nosuch", Body: &dsl.Block{Stmts: []*dsl.Stmt{dsl.CallStmt(dsl.Call("tr", i(77)))}}}
	}},
	{Name: "forrange-over-nil-pointer", Cite: "may", Stmt: func() *dsl.Stmt {
		return &dsl.Stmt{K: dsl.SForRange, KeyVar: "fk", Coll: "nilp", Body: &dsl.Block{Stmts: []*dsl.Stmt{dsl.CallStmt(dsl.Call("tr", i(78)))}}}
	}},
	{Name: "forrange-over-string-field", Cite: "may", Stmt: func() *dsl.Stmt {
		return &dsl.Stmt{K: dsl.SForRange, KeyVar: "fk", Coll: "W.S", Body: &dsl.Block{Stmts: []*dsl.Stmt{dsl.CallStmt(dsl.Call("tr", i(79)))}}}
	}},
	{Name: "forrange-key-is-unassignable-injected-name", Cite: "may", Stmt: func() *dsl.Stmt {
		return &dsl.Stmt{K: dsl.SForRange, KeyVar: "scalar", Coll: "sl", Body: &dsl.Block{Stmts: []*dsl.Stmt{dsl.CallStmt(dsl.Call("tr", i(80)))}}}
	}},
	{Name: "unbounded-for", Cite: "may", Stmt: func() *dsl.Stmt {
		return &dsl.Stmt{K: dsl.SFor, Init: dsl.Assign(dsl.Var("fi"), "=", i(0)), Cond: dsl.Bool(true), Step: dsl.Assign(dsl.Var("fi"), "+=", i(0)),
			Body: &dsl.Block{Stmts: []*dsl.Stmt{dsl.Assign(dsl.Var("fz"), "=", i(1))}}}
	}},
	{Name: "unbounded-for-with-continue", Cite: "may", Stmt: func() *dsl.Stmt {
		return &dsl.Stmt{K: dsl.SFor, Init: dsl.Assign(dsl.Var("fi"), "=", i(0)), Cond: dsl.Bin(">=", dsl.Var("fi"), i(0)), Step: dsl.Assign(dsl.Var("fi"), "+=", i(1)),
			Body: &dsl.Block{Stmts: []*dsl.Stmt{{K: dsl.SContinue}}}}
	}},
	{Name: "break-outside-loop", Cite: "may", NoLoop: true, Stmt: func() *dsl.Stmt { return &dsl.Stmt{K: dsl.SBreak} }},
	{Name: "continue-outside-loop", Cite: "may", NoLoop: true, Stmt: func() *dsl.Stmt { return &dsl.Stmt{K: dsl.SContinue} }},
}

// Placements of a fault.
var exprPlaces = []string{"assign-local", "assign-field", "compound-local", "assign-element", "if-cond", "elseif-cond", "for-cond", "for-init", "for-step", "return", "call-arg", "call-arg-assign", "method-arg", "conc-assign", "conc-call-arg", "stmt-call", "conc-stmt-call"}
var stmtPlaces = []string{"plain", "conc", "for-init", "for-step"}

// Wrappers: enclosing statement kinds whose body holds the fault.
var wrappers = []string{"if", "else", "elseif", "for", "forrange"}

// FaultProgram describes one faulty rule body.
type FaultProgram struct {
	Fault int   `json:"fault"`
	Place int   `json:"place"`
	Wraps []int `json:"wraps,omitempty"` // indices into wrappers, outermost first
	Pre   int   `json:"pre,omitempty"`   // number of healthy statements before the fault
	Post  int   `json:"post,omitempty"`
	// Twice: in a conc placement the faulty child occurs twice in the block (two children of
	// one block fail); used by C09 only.
	Twice bool `json:"twice,omitempty"`
}

func (fp *FaultProgram) spec() *faultSpec { return &faultCatalogue[fp.Fault] }

func (fp *FaultProgram) placeName() string {
	if fp.spec().Expr != nil {
		return exprPlaces[fp.Place%len(exprPlaces)]
	}
	return stmtPlaces[fp.Place%len(stmtPlaces)]
}

// feasible reports whether the (fault, place, wrappers) combination can be built.
func (fp *FaultProgram) feasible() bool {
	s := fp.spec()
	pl := fp.placeName()
	if s.Stmt != nil {
		st := s.Stmt()
		isAssign := st.K == dsl.SAssign
		switch pl {
		case "conc":
			if !isAssign {
				return false
			}
		case "for-init", "for-step":
			if !isAssign || st.Target.K != dsl.KVar {
				return false
			}
		}
		if s.NoLoop {
			if pl != "plain" {
				return false
			}
			for _, w := range fp.Wraps {
				if wrappers[w%len(wrappers)] == "for" || wrappers[w%len(wrappers)] == "forrange" {
					return false
				}
			}
		}
		return true
	}
	if (pl == "stmt-call" || pl == "conc-stmt-call") && s.Expr().K != dsl.KCall {
		return false
	}
	if len(s.Places) > 0 {
		for _, p := range s.Places {
			if p == pl {
				return true
			}
		}
		return false
	}
	return true
}

func tr(n int64) *dsl.Stmt { return dsl.CallStmt(dsl.Call("tr", i(n))) }

// asCond turns a faulty expression into a condition.
func asCond(s *faultSpec, e *dsl.Expr) *dsl.Expr {
	if s.BoolValued || !dsl.IsMath(e) {
		return e
	}
	return dsl.Bin(">", e, i(0))
}

// Build constructs the rule body and returns it together with the faulty node (an
// *dsl.Expr, *dsl.Stmt or, for a return, the *dsl.Block) .
func (fp *FaultProgram) Build() (*dsl.Block, interface{}) {
	s := fp.spec()
	var core []*dsl.Stmt // the statements holding the fault
	var node interface{}
	tail := (*dsl.Block)(nil) // set when the fault is a return expression
	if s.Pre != nil {
		core = append(core, s.Pre())
	}
	if s.Stmt != nil {
		st := s.Stmt()
		st.Fault = s.Name
		node = st
		switch fp.placeName() {
		case "plain":
			core = append(core, st)
		case "conc":
			kids := []*dsl.Stmt{dsl.Assign(dsl.Var("cz"), "=", i(2)), st, dsl.CallStmt(dsl.Call("tr", i(61)))}
			if fp.Twice {
				kids = append(kids, s.Stmt())
			}
			core = append(core, &dsl.Stmt{K: dsl.SConc, Kids: kids})
		case "for-init":
			core = append(core, &dsl.Stmt{K: dsl.SFor, Init: st, Cond: dsl.Bin("<", i(0), i(1)), Step: dsl.Assign(dsl.Var("fj"), "=", i(1)), Body: &dsl.Block{Stmts: []*dsl.Stmt{tr(62), {K: dsl.SBreak}}}})
		case "for-step":
			core = append(core, &dsl.Stmt{K: dsl.SFor, Init: dsl.Assign(dsl.Var("fj"), "=", i(0)), Cond: dsl.Bin("<", dsl.Var("fj"), i(1)), Step: st, Body: &dsl.Block{Stmts: []*dsl.Stmt{tr(63), dsl.Assign(dsl.Var("fj"), "=", i(7))}}})
		}
	} else {
		e := s.Expr()
		e.Fault = s.Name
		node = e
		if s.Inner != nil {
			node = s.Inner(e)
		}
		switch fp.placeName() {
		case "assign-local":
			core = append(core, dsl.Assign(dsl.Var("z"), "=", e))
		case "assign-field":
			core = append(core, dsl.Assign(dsl.Var("W.N"), "=", e))
		case "compound-local":
			core = append(core, dsl.Assign(dsl.Var("z2"), "=", i(1)), dsl.Assign(dsl.Var("z2"), "+=", e))
		case "assign-element":
			core = append(core, dsl.Assign(dsl.Index("sl", i(0)), "=", e))
		case "if-cond":
			core = append(core, &dsl.Stmt{K: dsl.SIf, Cond: asCond(s, e), Then: &dsl.Block{Stmts: []*dsl.Stmt{tr(51)}}})
		case "elseif-cond":
			core = append(core, &dsl.Stmt{K: dsl.SIf, Cond: dsl.Bool(false), Then: &dsl.Block{Stmts: []*dsl.Stmt{tr(52)}},
				ElseIfs: []dsl.ElseIf{{Cond: asCond(s, e), Body: &dsl.Block{Stmts: []*dsl.Stmt{tr(53)}}}}, Else: &dsl.Block{Stmts: []*dsl.Stmt{tr(54)}}})
		case "for-cond":
			core = append(core, &dsl.Stmt{K: dsl.SFor, Init: dsl.Assign(dsl.Var("fj"), "=", i(0)), Cond: asCond(s, e), Step: dsl.Assign(dsl.Var("fj"), "+=", i(1)), Body: &dsl.Block{Stmts: []*dsl.Stmt{tr(55), {K: dsl.SBreak}}}})
		case "for-init":
			core = append(core, &dsl.Stmt{K: dsl.SFor, Init: dsl.Assign(dsl.Var("fj"), "=", e), Cond: dsl.Bin("<", i(0), i(1)), Step: dsl.Assign(dsl.Var("fj"), "=", i(1)), Body: &dsl.Block{Stmts: []*dsl.Stmt{tr(56), {K: dsl.SBreak}}}})
		case "for-step":
			core = append(core, &dsl.Stmt{K: dsl.SFor, Init: dsl.Assign(dsl.Var("fj"), "=", i(0)), Cond: dsl.Bin("<", dsl.Var("fj"), i(1)), Step: dsl.Assign(dsl.Var("fj"), "+=", e), Body: &dsl.Block{Stmts: []*dsl.Stmt{tr(57)}}})
		case "return":
			tail = &dsl.Block{HasRet: true, Ret: e}
		case "call-arg":
			core = append(core, dsl.CallStmt(dsl.Call("ok", e)))
		case "call-arg-assign":
			core = append(core, dsl.Assign(dsl.Var("z"), "=", dsl.Call("two", i(1), e)))
		case "method-arg":
			core = append(core, dsl.CallStmt(dsl.Call("O.Add", e)))
		case "conc-assign":
			kids := []*dsl.Stmt{dsl.Assign(dsl.Var("cz"), "=", i(2)), dsl.Assign(dsl.Var("z"), "=", e), dsl.CallStmt(dsl.Call("tr", i(58)))}
			if fp.Twice {
				kids = append(kids, dsl.Assign(dsl.Var("zb"), "=", s.Expr()))
			}
			core = append(core, &dsl.Stmt{K: dsl.SConc, Kids: kids})
		case "conc-call-arg":
			kids := []*dsl.Stmt{dsl.CallStmt(dsl.Call("ok", e)), dsl.Assign(dsl.Var("cz"), "=", i(2))}
			if fp.Twice {
				kids = append(kids, dsl.CallStmt(dsl.Call("ok", s.Expr())))
			}
			core = append(core, &dsl.Stmt{K: dsl.SConc, Kids: kids})
		case "stmt-call":
			core = append(core, dsl.CallStmt(e))
		case "conc-stmt-call":
			kids := []*dsl.Stmt{dsl.Assign(dsl.Var("cz"), "=", i(2)), dsl.CallStmt(e), dsl.CallStmt(dsl.Call("tr", i(59)))}
			if fp.Twice {
				kids = append(kids, dsl.CallStmt(s.Expr()))
			}
			core = append(core, &dsl.Stmt{K: dsl.SConc, Kids: kids})
		}
	}
	// innermost block
	inner := &dsl.Block{}
	for k := 0; k < fp.Pre; k++ {
		inner.Stmts = append(inner.Stmts, tr(int64(10+k)))
	}
	inner.Stmts = append(inner.Stmts, core...)
	if tail != nil {
		inner.HasRet, inner.Ret = true, tail.Ret
	}
	for k := 0; k < fp.Post && tail == nil; k++ {
		inner.Stmts = append(inner.Stmts, tr(int64(20+k)))
	}
	// wrap
	cur := inner
	for d := len(fp.Wraps) - 1; d >= 0; d-- {
		var w *dsl.Stmt
		switch wrappers[fp.Wraps[d]%len(wrappers)] {
		case "if":
			w = &dsl.Stmt{K: dsl.SIf, Cond: dsl.Bin("==", i(1), i(1)), Then: cur}
		case "else":
			w = &dsl.Stmt{K: dsl.SIf, Cond: dsl.Bool(false), Then: &dsl.Block{Stmts: []*dsl.Stmt{tr(31)}}, Else: cur}
		case "elseif":
			w = &dsl.Stmt{K: dsl.SIf, Cond: dsl.Bool(false), Then: &dsl.Block{Stmts: []*dsl.Stmt{tr(32)}}, ElseIfs: []dsl.ElseIf{{Cond: dsl.Bool(true), Body: cur}}}
		case "for":
			v := fmt.Sprintf("w%d", d)
			w = &dsl.Stmt{K: dsl.SFor, Init: dsl.Assign(dsl.Var(v), "=", i(0)), Cond: dsl.Bin("<", dsl.Var(v), i(2)), Step: dsl.Assign(dsl.Var(v), "+=", i(1)), Body: cur}
		default:
			w = &dsl.Stmt{K: dsl.SForRange, KeyVar: fmt.Sprintf("wk%d", d), Coll: "onesl", Body: cur}
		}
		cur = &dsl.Block{Stmts: []*dsl.Stmt{tr(int64(40 + d)), w, tr(int64(45 + d))}}
	}
	return cur, node
}

// pathTo returns the chain of nodes (*dsl.Stmt, *dsl.Expr, *dsl.Block for a return) from
// the block down to target.
func pathTo(b *dsl.Block, target interface{}) []interface{} {
	if b == nil {
		return nil
	}
	if bt, ok := target.(*dsl.Block); ok && bt == b {
		return []interface{}{b}
	}
	for _, s := range b.Stmts {
		if p := pathStmt(s, target); p != nil {
			return p
		}
	}
	if b.HasRet && b.Ret != nil {
		if p := pathExpr(b.Ret, target); p != nil {
			return append([]interface{}{b}, p...)
		}
	}
	return nil
}

func pathStmt(s *dsl.Stmt, target interface{}) []interface{} {
	if s == nil {
		return nil
	}
	if st, ok := target.(*dsl.Stmt); ok && st == s {
		return []interface{}{s}
	}
	pre := []interface{}{s}
	for _, e := range []*dsl.Expr{s.Target, s.Val, s.Cond, s.Call} {
		if p := pathExpr(e, target); p != nil {
			return append(pre, p...)
		}
	}
	for _, k := range []*dsl.Stmt{s.Init, s.Step} {
		if p := pathStmt(k, target); p != nil {
			return append(pre, p...)
		}
	}
	for _, k := range s.Kids {
		if p := pathStmt(k, target); p != nil {
			return append(pre, p...)
		}
	}
	for i := range s.ElseIfs {
		if p := pathExpr(s.ElseIfs[i].Cond, target); p != nil {
			return append(pre, p...)
		}
		if p := pathTo(s.ElseIfs[i].Body, target); p != nil {
			return append(pre, p...)
		}
	}
	for _, b := range []*dsl.Block{s.Then, s.Else, s.Body} {
		if p := pathTo(b, target); p != nil {
			return append(pre, p...)
		}
	}
	return nil
}

func pathExpr(e *dsl.Expr, target interface{}) []interface{} {
	if e == nil {
		return nil
	}
	if et, ok := target.(*dsl.Expr); ok && et == e {
		return []interface{}{e}
	}
	for _, c := range append([]*dsl.Expr{e.L, e.R, e.Key}, e.Args...) {
		if p := pathExpr(c, target); p != nil {
			return append([]interface{}{e}, p...)
		}
	}
	return nil
}

// allowedLines computes the set A of C20: the start lines of the faulty node and of its
// ancestors up to and including the innermost enclosing statement.
func allowedLines(p *dsl.Printer, body *dsl.Block, node interface{}) map[int]bool {
	path := pathTo(body, node)
	A := map[int]bool{}
	// innermost enclosing statement: last *dsl.Stmt / *dsl.Block(return) on the path
	from := 0
	for i, n := range path {
		switch x := n.(type) {
		case *dsl.Stmt:
			from = i
		case *dsl.Block:
			if x.HasRet {
				// a block on the path counts as statement only if it is the return holder
				if i == len(path)-1 || isExpr(path[i+1]) {
					from = i
				}
			}
		}
	}
	for _, n := range path[from:] {
		if l, ok := p.Start[n]; ok {
			A[l] = true
		}
	}
	return A
}

func isExpr(n interface{}) bool { _, ok := n.(*dsl.Expr); return ok }

// ---------------------------------------------------------------------------------
// fault world
// ---------------------------------------------------------------------------------

// FObj is the object injected as "O".
type FObj struct {
	V     int64
	In    *FObj
	NilIn *FObj
	hid   int64  // unexported: readable by name through reflection, but its value cannot leave the rule
	Pt    FPoint // a struct held by value, all fields zero
	// interface-typed fields: one holding an integer, one nil
	Any    interface{}
	NilAny interface{}
}

// FPoint is a plain value struct.
type FPoint struct{ X, Y int64 }

func (o *FObj) Get() int64        { return o.V }
func (o *FObj) Add(a int64) int64 { o.V += a; return o.V }
func (o *FObj) Boom() int64       { panic("injected method panic") }

// faultInject builds the injected data of fault cases: healthy objects plus nil pointers,
// empty containers and wrong kinds.
func faultInject(l *obs.Log) map[string]interface{} {
	w := &StmtHost{N: 4, U: 2, F: 1.5, S: "str", B: true, Sl: []int64{1, 2, 3}, Arr: [4]int64{1, 2, 3, 4}, M: map[string]int64{"k1": 1}}
	pi := int64(3)
	ps := "p"
	var nilsl *[]int64
	var nilm map[string]int64
	return map[string]interface{}{
		"W": w, "VS": StmtHost{N: 1}, "nilp": (*StmtHost)(nil), "nilo": (*FObj)(nil), "nilsl": nilsl, "nilm": nilm,
		"sl": []int64{5, 6, 7}, "m": map[string]int64{"k1": 1, "k2": 2}, "mi": map[int64]int64{1: 1},
		"emptysl": []int64{}, "onesl": []int64{7},
		"scalar": int64(9), "arrv": [3]int64{1, 2, 3}, "pint": &pi, "pstr": &ps,
		"uz": uint64(0), "big": int64(50), "neg": int64(-3),
		"O":    &FObj{V: 1, In: &FObj{V: 2}, hid: 5},
		"ok":   func(n int64) int64 { return n },
		"two":  func(a, b int64) int64 { return a + b },
		"boom": func() int64 { panic("injected function panic") },
		"tr":   func(n int64) { l.Add("T", "", n) },
	}
}
