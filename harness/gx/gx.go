// Package gx is the thin execution layer over gengine's public API: every Execute*
// variant of engine.Gengine and engine.GenginePool is reachable by name through one Call
// descriptor, so generators can draw "a method" and models can say what it must do.
package gx

import (
	"fmt"
	"sort"

	"github.com/bilibili/gengine/builder"
	"github.com/bilibili/gengine/engine"
	mlog "github.com/google/martian/log"
)

func init() { mlog.SetLevel(mlog.Silent) }

// Shape of a method: which reference scheduling model applies.
const (
	ShSort  = "sort"
	ShConc  = "conc"
	ShMix   = "mix"
	ShInv   = "inv"
	ShNSC   = "nsc" // N sort, M concurrent
	ShNCS   = "ncs"
	ShNCC   = "ncc"
	ShDAG   = "dag"
	ShByEM  = "em"  // pool: model configured in the pool
)

// Method describes one Execute* variant.
type Method struct {
	Name     string
	Shape    string
	Selected bool // takes a name list
	AsGiven  bool // runs in caller's order
	HasB     bool // takes the continue-on-error flag
	HasTag   bool // takes a *Stag
	NM       bool
	OnEngine bool
	OnPool   bool
}

var Methods = []Method{
	{Name: "Execute", Shape: ShSort, HasB: true, OnEngine: true, OnPool: true},
	{Name: "ExecuteWithStopTagDirect", Shape: ShSort, HasB: true, HasTag: true, OnEngine: true, OnPool: true},
	{Name: "ExecuteConcurrent", Shape: ShConc, OnEngine: true, OnPool: true},
	{Name: "ExecuteMixModel", Shape: ShMix, OnEngine: true, OnPool: true},
	{Name: "ExecuteMixModelWithStopTagDirect", Shape: ShMix, HasTag: true, OnEngine: true, OnPool: true},
	{Name: "ExecuteSelectedRules", Shape: ShSort, Selected: true, OnEngine: true, OnPool: true},
	{Name: "ExecuteSelectedRulesWithControl", Shape: ShSort, Selected: true, HasB: true, OnEngine: true, OnPool: true},
	{Name: "ExecuteSelectedRulesWithControlAsGivenSortedName", Shape: ShSort, Selected: true, AsGiven: true, HasB: true, OnEngine: true, OnPool: true},
	{Name: "ExecuteSelectedRulesWithControlAndStopTag", Shape: ShSort, Selected: true, HasB: true, HasTag: true, OnEngine: true, OnPool: true},
	{Name: "ExecuteSelectedRulesWithControlAndStopTagAsGivenSortedName", Shape: ShSort, Selected: true, AsGiven: true, HasB: true, HasTag: true, OnEngine: true, OnPool: true},
	{Name: "ExecuteSelectedRulesConcurrent", Shape: ShConc, Selected: true, OnEngine: true, OnPool: true},
	{Name: "ExecuteSelectedRulesMixModel", Shape: ShMix, Selected: true, OnEngine: true, OnPool: true},
	{Name: "ExecuteInverseMixModel", Shape: ShInv, OnEngine: true, OnPool: true},
	{Name: "ExecuteSelectedRulesInverseMixModel", Shape: ShInv, Selected: true, OnEngine: true, OnPool: true},
	{Name: "ExecuteNSortMConcurrent", Shape: ShNSC, HasB: true, NM: true, OnEngine: true, OnPool: true},
	{Name: "ExecuteNConcurrentMSort", Shape: ShNCS, HasB: true, NM: true, OnEngine: true, OnPool: true},
	{Name: "ExecuteNConcurrentMConcurrent", Shape: ShNCC, HasB: true, NM: true, OnEngine: true, OnPool: true},
	{Name: "ExecuteSelectedNSortMConcurrent", Shape: ShNSC, Selected: true, HasB: true, NM: true, OnEngine: true, OnPool: true},
	{Name: "ExecuteSelectedNConcurrentMSort", Shape: ShNCS, Selected: true, HasB: true, NM: true, OnEngine: true, OnPool: true},
	{Name: "ExecuteSelectedNConcurrentMConcurrent", Shape: ShNCC, Selected: true, HasB: true, NM: true, OnEngine: true, OnPool: true},
	{Name: "ExecuteDAGModel", Shape: ShDAG, OnEngine: true, OnPool: true},
	{Name: "ExecuteRulesWithSpecifiedEM", Shape: ShByEM, OnPool: true},
	{Name: "ExecuteRulesWithMultiInputWithSpecifiedEM", Shape: ShByEM, OnPool: true},
	{Name: "ExecuteSelectedWithSpecifiedEM", Shape: ShByEM, Selected: true, OnPool: true},
}

var byName = func() map[string]Method {
	m := map[string]Method{}
	for _, x := range Methods {
		m[x.Name] = x
	}
	return m
}()

func Lookup(name string) (Method, bool) { m, ok := byName[name]; return m, ok }

// MethodNames returns the names of the methods available on the engine / the pool.
func MethodNames(pool bool) []string {
	var out []string
	for _, m := range Methods {
		if (pool && m.OnPool) || (!pool && m.OnEngine) {
			out = append(out, m.Name)
		}
	}
	return out
}

// Call is one invocation of an execute method.
type Call struct {
	Method string     `json:"method"`
	B      bool       `json:"b,omitempty"`
	N      int        `json:"n,omitempty"`
	M      int        `json:"m,omitempty"`
	Names  []string   `json:"names,omitempty"`
	DAG    [][]string `json:"dag,omitempty"`
}

func (c Call) String() string {
	s := c.Method + "("
	m, _ := Lookup(c.Method)
	if m.NM {
		s += fmt.Sprintf("n=%d,m=%d,", c.N, c.M)
	}
	if m.HasB {
		s += fmt.Sprintf("b=%v,", c.B)
	}
	if m.Selected {
		s += fmt.Sprintf("names=%v,", c.Names)
	}
	if m.Shape == ShDAG {
		s += fmt.Sprintf("dag=%v,", c.DAG)
	}
	return s + ")"
}

// Result of an invocation. Panic holds the recovered value (as text) if the call panicked
// on the calling goroutine.
type Result struct {
	Err   error
	Map   map[string]interface{}
	Panic string
}

// OnEngine invokes the call on a bare engine.
func OnEngine(g *engine.Gengine, rb *builder.RuleBuilder, c Call, tag *engine.Stag) (res Result) {
	defer func() {
		if r := recover(); r != nil {
			res.Panic = fmt.Sprint(r)
			res.Map, _ = g.GetRulesResultMap()
		}
	}()
	var err error
	switch c.Method {
	case "Execute":
		err = g.Execute(rb, c.B)
	case "ExecuteWithStopTagDirect":
		err = g.ExecuteWithStopTagDirect(rb, c.B, tag)
	case "ExecuteConcurrent":
		err = g.ExecuteConcurrent(rb)
	case "ExecuteMixModel":
		err = g.ExecuteMixModel(rb)
	case "ExecuteMixModelWithStopTagDirect":
		err = g.ExecuteMixModelWithStopTagDirect(rb, tag)
	case "ExecuteSelectedRules":
		err = g.ExecuteSelectedRules(rb, c.Names)
	case "ExecuteSelectedRulesWithControl":
		err = g.ExecuteSelectedRulesWithControl(rb, c.B, c.Names)
	case "ExecuteSelectedRulesWithControlAsGivenSortedName":
		err = g.ExecuteSelectedRulesWithControlAsGivenSortedName(rb, c.B, c.Names)
	case "ExecuteSelectedRulesWithControlAndStopTag":
		err = g.ExecuteSelectedRulesWithControlAndStopTag(rb, c.B, tag, c.Names)
	case "ExecuteSelectedRulesWithControlAndStopTagAsGivenSortedName":
		err = g.ExecuteSelectedRulesWithControlAndStopTagAsGivenSortedName(rb, c.B, tag, c.Names)
	case "ExecuteSelectedRulesConcurrent":
		err = g.ExecuteSelectedRulesConcurrent(rb, c.Names)
	case "ExecuteSelectedRulesMixModel":
		err = g.ExecuteSelectedRulesMixModel(rb, c.Names)
	case "ExecuteInverseMixModel":
		err = g.ExecuteInverseMixModel(rb)
	case "ExecuteSelectedRulesInverseMixModel":
		err = g.ExecuteSelectedRulesInverseMixModel(rb, c.Names)
	case "ExecuteNSortMConcurrent":
		err = g.ExecuteNSortMConcurrent(c.N, c.M, rb, c.B)
	case "ExecuteNConcurrentMSort":
		err = g.ExecuteNConcurrentMSort(c.N, c.M, rb, c.B)
	case "ExecuteNConcurrentMConcurrent":
		err = g.ExecuteNConcurrentMConcurrent(c.N, c.M, rb, c.B)
	case "ExecuteSelectedNSortMConcurrent":
		err = g.ExecuteSelectedNSortMConcurrent(c.N, c.M, rb, c.B, c.Names)
	case "ExecuteSelectedNConcurrentMSort":
		err = g.ExecuteSelectedNConcurrentMSort(c.N, c.M, rb, c.B, c.Names)
	case "ExecuteSelectedNConcurrentMConcurrent":
		err = g.ExecuteSelectedNConcurrentMConcurrent(c.N, c.M, rb, c.B, c.Names)
	case "ExecuteDAGModel":
		err = g.ExecuteDAGModel(rb, c.DAG)
	default:
		panic("gx: unknown engine method " + c.Method)
	}
	res.Err = err
	res.Map, _ = g.GetRulesResultMap()
	return
}

// OnPool invokes the call on a pool with the given injected data. For the two
// req/resp style methods the first two keys of data (sorted) are used.
func OnPool(p *engine.GenginePool, c Call, data map[string]interface{}, tag *engine.Stag) (res Result) {
	defer func() {
		if r := recover(); r != nil {
			res.Panic = fmt.Sprint(r)
		}
	}()
	var err error
	var m map[string]interface{}
	switch c.Method {
	case "ExecuteRulesWithSpecifiedEM":
		keys := make([]string, 0, len(data))
		for k := range data {
			if k == "stag" && len(data) > 2 {
				continue // the req/resp style method carries two values only
			}
			keys = append(keys, k)
		}
		sort.Strings(keys)
		var k1, k2 string
		var v1, v2 interface{}
		if len(keys) > 0 {
			k1, v1 = keys[0], data[keys[0]]
		}
		if len(keys) > 1 {
			k2, v2 = keys[1], data[keys[1]]
		}
		if len(keys) > 2 {
			panic("gx: ExecuteRulesWithSpecifiedEM takes at most two injected values")
		}
		err, m = p.ExecuteRulesWithSpecifiedEM(k1, v1, k2, v2)
	case "ExecuteRulesWithMultiInputWithSpecifiedEM":
		err, m = p.ExecuteRulesWithMultiInputWithSpecifiedEM(data)
	case "ExecuteSelectedWithSpecifiedEM":
		err, m = p.ExecuteSelectedWithSpecifiedEM(data, c.Names)
	case "Execute":
		err, m = p.Execute(data, c.B)
	case "ExecuteWithStopTagDirect":
		err, m = p.ExecuteWithStopTagDirect(data, c.B, tag)
	case "ExecuteConcurrent":
		err, m = p.ExecuteConcurrent(data)
	case "ExecuteMixModel":
		err, m = p.ExecuteMixModel(data)
	case "ExecuteMixModelWithStopTagDirect":
		err, m = p.ExecuteMixModelWithStopTagDirect(data, tag)
	case "ExecuteSelectedRules":
		err, m = p.ExecuteSelectedRules(data, c.Names)
	case "ExecuteSelectedRulesWithControl":
		err, m = p.ExecuteSelectedRulesWithControl(data, c.B, c.Names)
	case "ExecuteSelectedRulesWithControlAsGivenSortedName":
		err, m = p.ExecuteSelectedRulesWithControlAsGivenSortedName(data, c.B, c.Names)
	case "ExecuteSelectedRulesWithControlAndStopTag":
		err, m = p.ExecuteSelectedRulesWithControlAndStopTag(data, c.B, tag, c.Names)
	case "ExecuteSelectedRulesWithControlAndStopTagAsGivenSortedName":
		err, m = p.ExecuteSelectedRulesWithControlAndStopTagAsGivenSortedName(data, c.B, tag, c.Names)
	case "ExecuteSelectedRulesConcurrent":
		err, m = p.ExecuteSelectedRulesConcurrent(data, c.Names)
	case "ExecuteSelectedRulesMixModel":
		err, m = p.ExecuteSelectedRulesMixModel(data, c.Names)
	case "ExecuteInverseMixModel":
		err, m = p.ExecuteInverseMixModel(data)
	case "ExecuteSelectedRulesInverseMixModel":
		err, m = p.ExecuteSelectedRulesInverseMixModel(data, c.Names)
	case "ExecuteNSortMConcurrent":
		err, m = p.ExecuteNSortMConcurrent(c.N, c.M, c.B, data)
	case "ExecuteNConcurrentMSort":
		err, m = p.ExecuteNConcurrentMSort(c.N, c.M, c.B, data)
	case "ExecuteNConcurrentMConcurrent":
		err, m = p.ExecuteNConcurrentMConcurrent(c.N, c.M, c.B, data)
	case "ExecuteSelectedNSortMConcurrent":
		err, m = p.ExecuteSelectedNSortMConcurrent(c.N, c.M, c.B, c.Names, data)
	case "ExecuteSelectedNConcurrentMSort":
		err, m = p.ExecuteSelectedNConcurrentMSort(c.N, c.M, c.B, c.Names, data)
	case "ExecuteSelectedNConcurrentMConcurrent":
		err, m = p.ExecuteSelectedNConcurrentMConcurrent(c.N, c.M, c.B, c.Names, data)
	case "ExecuteDAGModel":
		err, m = p.ExecuteDAGModel(c.DAG, data)
	default:
		panic("gx: unknown pool method " + c.Method)
	}
	res.Err = err
	res.Map = m
	return
}
