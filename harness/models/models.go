// Package models holds the reference scheduling models: for every Execute* variant a
// validity predicate over (rule set, call, observed trace, error, result map). They are
// written from the statements of C04/C05/C11-C14 (DESIGN.md appendix A), never as "the
// expected trace": ties, fan-out order and map order make many traces correct.
package models

import (
	"fmt"
	"sort"

	"verif/gx"
	"verif/obs"
)

// Rule is what the model knows about one installed rule. The standard body is
//   S(@name) gate(@name) [stag.StopTag = true] [F(@name)] E(@name) [return <ret>]
type Rule struct {
	Name    string      `json:"name"`
	Sal     int64       `json:"sal"`
	Fails   bool        `json:"fails,omitempty"`
	SetsTag bool        `json:"tag,omitempty"`
	Returns bool        `json:"ret,omitempty"`
	RetVal  interface{} `json:"retval,omitempty"`
	// FailKind selects the failing statement of a failing rule (0: panicking function,
	// others: see props.failStmts). TagCond, if set, guards the rule's store to the stop
	// tag: it evaluates to true in a rule that sets the tag and to false in one that does
	// not ("=" prefix: the condition is assigned to the tag instead). Neither changes what
	// the reference model expects.
	FailKind int    `json:"fk,omitempty"`
	TagCond  string `json:"tagcond,omitempty"`
	// NoSal: the rule header has no salience clause (Sal is 0 then); NoDesc: no description.
	NoSal  bool `json:"nosal,omitempty"`
	// TagDecl: the tag store is written with ":=" instead of "=" (the same store)
	TagDecl bool `json:"tagdecl,omitempty"`
	// SalZeros: number of leading zeros in the spelling of the salience (salience 007, -010)
	SalZeros int `json:"salzeros,omitempty"`
	NoDesc bool `json:"nodesc,omitempty"`
}

// Input of a validation.
type Input struct {
	Rules   []Rule
	Call    gx.Call
	EM      int  // pool execution model (for the *SpecifiedEM methods)
	Cleared bool // pool was cleared: nothing runs, nil error, empty result
	Trace   []obs.Event
	Err     bool
	Panic   string
	Result  map[string]interface{}
	// SkipResult disables the result-map clause (used when a property's rules do not
	// follow the standard body).
	SkipResult bool
}

// Violation of the reference model.
type Violation struct {
	Kind string
	Msg  string
}

func (v Violation) String() string { return v.Kind + ": " + v.Msg }

type run struct {
	name  string
	start int // seq of S
	end   int // seq of E or F, -1 if none
	fail  bool
	stage int
}

type stage struct {
	seq        bool
	lo, hi     int
	stopOnFail bool
	tagStops   bool
}

// EffectiveShape resolves the *SpecifiedEM pool methods.
func EffectiveShape(m gx.Method, em int) (shape string, b bool, hasB bool) {
	if m.Shape != gx.ShByEM {
		return m.Shape, false, m.HasB
	}
	switch em {
	case 1:
		return gx.ShSort, true, false
	case 2:
		return gx.ShConc, false, false
	case 3:
		return gx.ShMix, false, false
	case 4:
		return gx.ShInv, false, false
	}
	return "none", false, false
}

// Validate checks one call against its reference model and returns every violated clause.
func Validate(in Input) []Violation {
	var vs []Violation
	add := func(kind, f string, a ...interface{}) {
		vs = append(vs, Violation{Kind: kind, Msg: fmt.Sprintf(f, a...)})
	}
	if in.Panic != "" {
		add("panic", "call %s panicked: %.200s", in.Call, in.Panic)
		return vs
	}
	m, ok := gx.Lookup(in.Call.Method)
	if !ok {
		panic("models: unknown method " + in.Call.Method)
	}
	byName := map[string]Rule{}
	for _, r := range in.Rules {
		byName[r.Name] = r
	}
	// collect runs from the trace
	var runs []*run
	open := map[string][]*run{}
	last := map[string]*run{}
	for _, e := range in.Trace {
		switch e.Kind {
		case "S":
			r := &run{name: e.Name, start: e.Seq, end: -1, stage: -1}
			runs = append(runs, r)
			open[e.Name] = append(open[e.Name], r)
			last[e.Name] = r
		case "CX":
			// the end of a conc child of the rule: a rule is not over before its children are
			if r := last[e.Name]; r != nil && r.end >= 0 && e.Seq > r.end {
				r.end = e.Seq
			}
		case "E", "F":
			q := open[e.Name]
			if len(q) == 0 {
				add("trace", "event %v without a start", e)
				continue
			}
			q[0].end = e.Seq
			q[0].fail = e.Kind == "F"
			open[e.Name] = q[1:]
		}
	}
	started := map[string]int{}
	for _, r := range runs {
		started[r.name]++
		if _, ok := byName[r.name]; !ok {
			add("unknown-rule", "rule %q started but is not installed", r.name)
		}
	}
	anyFail := false
	for _, r := range runs {
		if r.end < 0 {
			add("unfinished", "rule %q started (seq %d) but neither ended nor failed before the call returned", r.name, r.start)
		}
		if r.fail {
			anyFail = true
		}
	}
	checkResult := func() {
		if in.SkipResult {
			return
		}
		want := map[string]interface{}{}
		for _, r := range runs {
			ru, ok := byName[r.name]
			if ok && ru.Returns && !ru.Fails && r.end >= 0 && !r.fail {
				want[r.name] = ru.RetVal
			}
		}
		for k, v := range in.Result {
			w, ok := want[k]
			if !ok {
				add("result-extra", "result map has entry %q=%v but that rule did not return in this call", k, v)
			} else if fmt.Sprint(w) != fmt.Sprint(v) {
				add("result-value", "result map entry %q=%v, want %v", k, v, w)
			}
		}
		for k := range want {
			if _, ok := in.Result[k]; !ok {
				add("result-missing", "rule %q returned but has no entry in the result map", k)
			}
		}
	}
	failNoRun := func(why string) []Violation {
		if len(runs) > 0 {
			add("fwr-ran", "%s: call must fail without running anything, but %d rule(s) started (first %q)", why, len(runs), runs[0].name)
		}
		if !in.Err {
			add("fwr-noerr", "%s: call must fail, but returned a nil error", why)
		}
		if !in.SkipResult && len(in.Result) > 0 {
			add("result-extra", "%s: nothing ran but the result map has %d entries", why, len(in.Result))
		}
		return vs
	}

	if in.Cleared {
		if len(runs) > 0 {
			add("cleared-ran", "pool is cleared but %d rule(s) started", len(runs))
		}
		if in.Err {
			add("cleared-err", "pool is cleared: execute must return a nil error and an empty map")
		}
		if len(in.Result) > 0 {
			add("result-extra", "pool is cleared but result map has %d entries", len(in.Result))
		}
		return vs
	}

	shape, emB, hasB := EffectiveShape(m, in.EM)
	b := in.Call.B
	if !hasB {
		b = true
		if shape == gx.ShSort && m.Shape == gx.ShByEM {
			b = emB
		}
	}

	if shape == gx.ShDAG {
		vs = append(vs, validateDAG(in, byName, runs, anyFail)...)
		checkResult()
		return vs
	}

	// scheduled set
	var sel []Rule
	unknownName := false
	if m.Selected {
		for _, n := range in.Call.Names {
			if r, ok := byName[n]; ok {
				sel = append(sel, r)
			} else {
				unknownName = true
			}
		}
	} else {
		sel = append(sel, in.Rules...)
	}
	inSel := map[string]bool{}
	for _, r := range sel {
		inSel[r.Name] = true
	}
	k := len(sel)
	n, mm := in.Call.N, in.Call.M
	nm := shape == gx.ShNSC || shape == gx.ShNCS || shape == gx.ShNCC
	if nm {
		if n <= 0 || mm <= 0 {
			return failNoRun("n<=0 or m<=0")
		}
		if m.Selected {
			if len(in.Call.Names) != n+mm {
				return failNoRun("number of names differs from n+m")
			}
			if unknownName {
				return failNoRun("unknown name in selected N-M call")
			}
		} else if n+mm > k {
			return failNoRun("n+m exceeds the number of rules")
		}
	}
	if k == 0 {
		return failNoRun("no (selected) rule exists")
	}
	salSeq := make([]int64, k)
	for i, r := range sel {
		salSeq[i] = r.Sal
	}
	sort.SliceStable(salSeq, func(i, j int) bool { return salSeq[i] > salSeq[j] })

	var stages []stage
	cont := true
	tagAfter0 := false
	switch shape {
	case gx.ShSort:
		stages = []stage{{seq: true, lo: 0, hi: k, stopOnFail: !b, tagStops: m.HasTag}}
	case gx.ShConc:
		stages = []stage{{lo: 0, hi: k}}
	case gx.ShMix:
		stages = []stage{{seq: true, lo: 0, hi: 1, stopOnFail: true}, {lo: 1, hi: k}}
		cont = false
		tagAfter0 = m.HasTag
	case gx.ShInv:
		stages = []stage{{lo: 0, hi: k - 1}, {seq: true, lo: k - 1, hi: k, stopOnFail: true}}
		cont = false
	case gx.ShNSC:
		stages = []stage{{seq: true, lo: 0, hi: n, stopOnFail: !b}, {lo: n, hi: n + mm}}
		cont = b
	case gx.ShNCS:
		stages = []stage{{lo: 0, hi: n}, {seq: true, lo: n, hi: n + mm, stopOnFail: !b}}
		cont = b
	case gx.ShNCC:
		stages = []stage{{lo: 0, hi: n}, {lo: n, hi: n + mm}}
		cont = b
	default:
		panic("models: shape " + shape)
	}

	// runs of rules outside the scheduled set / duplicates
	for name, c := range started {
		if !inSel[name] {
			add("unselected-ran", "rule %q ran but is not in the scheduled set", name)
		}
		if c > 1 {
			add("ran-twice", "rule %q started %d times", name, c)
		}
	}

	pos := 0 // next run
	stopped := false
	stopWhy := ""
	prevEnd := -1 // max end of all earlier stages
	for si, st := range stages {
		if st.hi <= st.lo {
			continue
		}
		if stopped {
			break
		}
		want := st.hi - st.lo
		stageMaxEnd := -1
		stageFail := false
		if st.seq {
			for i := 0; i < want; i++ {
				if pos >= len(runs) {
					add("missing-start", "stage %d (sequential, positions %d..%d): only %d of %d rules started; nothing stopped the stage", si, st.lo, st.hi, i, want)
					stopped, stopWhy = true, "missing"
					break
				}
				r := runs[pos]
				pos++
				r.stage = si
				ru := byName[r.name]
				if m.AsGiven {
					if r.name != sel[st.lo+i].Name {
						add("order", "as-given order: position %d ran %q, want %q", st.lo+i, r.name, sel[st.lo+i].Name)
					}
				} else if inSel[r.name] && ru.Sal != salSeq[st.lo+i] {
					add("order", "sorted stage: position %d ran %q (salience %d) but the rule at that position must have salience %d", st.lo+i, r.name, ru.Sal, salSeq[st.lo+i])
				}
				if r.start < prevEnd {
					add("barrier", "rule %q of stage %d started (seq %d) before the previous stage finished (seq %d)", r.name, si, r.start, prevEnd)
				}
				if stageMaxEnd >= 0 && r.start < stageMaxEnd {
					add("overlap", "sequential stage: rule %q started (seq %d) before its predecessor finished (seq %d)", r.name, r.start, stageMaxEnd)
				}
				if r.end > stageMaxEnd {
					stageMaxEnd = r.end
				}
				if r.fail {
					stageFail = true
					if st.stopOnFail {
						stopped, stopWhy = true, fmt.Sprintf("rule %q failed under stop-on-error", r.name)
						break
					}
				}
				if st.tagStops && ru.SetsTag {
					stopped, stopWhy = true, fmt.Sprintf("rule %q set the stop tag", r.name)
					break
				}
			}
		} else {
			if len(runs)-pos < want {
				add("missing-start", "stage %d (fan-out, positions %d..%d): only %d of %d rules started", si, st.lo, st.hi, len(runs)-pos, want)
				want = len(runs) - pos
				stopped, stopWhy = true, "missing"
			}
			got := make([]int64, 0, want)
			for i := 0; i < want; i++ {
				r := runs[pos]
				pos++
				r.stage = si
				if r.start < prevEnd {
					add("barrier", "rule %q of stage %d started (seq %d) before the previous stage finished (seq %d)", r.name, si, r.start, prevEnd)
				}
				if r.end > stageMaxEnd {
					stageMaxEnd = r.end
				}
				if r.fail {
					stageFail = true
				}
				if inSel[r.name] {
					got = append(got, byName[r.name].Sal)
				}
			}
			if stopWhy != "missing" {
				sort.Slice(got, func(i, j int) bool { return got[i] > got[j] })
				exp := salSeq[st.lo:st.hi]
				if len(got) == len(exp) {
					for i := range got {
						if got[i] != exp[i] {
							add("window", "fan-out stage %d ran saliences %v, the rules at positions %d..%d have saliences %v", si, got, st.lo, st.hi, exp)
							break
						}
					}
				}
			}
		}
		if stageMaxEnd > prevEnd {
			prevEnd = stageMaxEnd
		}
		if stageFail && !cont && !stopped {
			stopped, stopWhy = true, fmt.Sprintf("stage %d had a failure and the policy forbids later stages", si)
		}
		if si == 0 && tagAfter0 && !stopped {
			for _, r := range runs[:pos] {
				if byName[r.name].SetsTag {
					stopped, stopWhy = true, fmt.Sprintf("first rule %q set the stop tag", r.name)
				}
			}
		}
	}
	if pos < len(runs) {
		for _, r := range runs[pos:] {
			if stopped {
				add("ran-after-stop", "rule %q started (seq %d) although %s", r.name, r.start, stopWhy)
			} else {
				add("extra-start", "rule %q started (seq %d) beyond the scheduled window", r.name, r.start)
			}
		}
	}
	if anyFail != in.Err {
		if anyFail {
			add("err-missing", "a rule failed in this call but the call returned a nil error")
		} else {
			add("err-spurious", "no rule failed in this call but the call returned an error")
		}
	}
	checkResult()
	return vs
}

func validateDAG(in Input, byName map[string]Rule, runs []*run, anyFail bool) []Violation {
	var vs []Violation
	add := func(kind, f string, a ...interface{}) {
		vs = append(vs, Violation{Kind: kind, Msg: fmt.Sprintf(f, a...)})
	}
	pos := 0
	prevEnd := -1
	stopped := false
	for li, layer := range in.Call.DAG {
		want := map[string]int{}
		total := 0
		for _, n := range layer {
			if _, ok := byName[n]; ok {
				want[n]++
				total++
			}
		}
		if total == 0 {
			continue
		}
		if stopped {
			break
		}
		got := map[string]int{}
		maxEnd := -1
		fail := false
		if len(runs)-pos < total {
			add("missing-start", "layer %d: %d of %d rule executions started", li, len(runs)-pos, total)
			total = len(runs) - pos
			stopped = true
		}
		for i := 0; i < total; i++ {
			r := runs[pos]
			pos++
			r.stage = li
			got[r.name]++
			if r.start < prevEnd {
				add("barrier", "rule %q of layer %d started (seq %d) before an earlier layer finished (seq %d)", r.name, li, r.start, prevEnd)
			}
			if r.end > maxEnd {
				maxEnd = r.end
			}
			if r.fail {
				fail = true
			}
		}
		if !stopped {
			for n, c := range want {
				if got[n] != c {
					add("layer-set", "layer %d: rule %q ran %d time(s), want %d", li, n, got[n], c)
				}
			}
			for n, c := range got {
				if want[n] == 0 {
					add("layer-set", "layer %d: rule %q ran %d time(s) but is not in this layer", li, n, c)
				}
			}
		}
		if maxEnd > prevEnd {
			prevEnd = maxEnd
		}
		if fail {
			stopped = true
		}
	}
	for _, r := range runs[pos:] {
		add("ran-after-stop", "rule %q started (seq %d) after a layer failed / beyond the DAG", r.name, r.start)
	}
	if anyFail != in.Err {
		if anyFail {
			add("err-missing", "a rule failed in this DAG call but the call returned a nil error")
		} else {
			add("err-spurious", "no rule failed in this DAG call but the call returned an error")
		}
	}
	return vs
}

// ExpectedStarted returns, for calls whose scheduled set is unambiguous, the set of rule
// names that the model requires to start when nothing fails and no tag is set. Used only
// for non-triviality accounting.
func ScheduledSet(rules []Rule, c gx.Call) []string {
	m, _ := gx.Lookup(c.Method)
	var out []string
	if m.Selected {
		have := map[string]bool{}
		for _, r := range rules {
			have[r.Name] = true
		}
		for _, n := range c.Names {
			if have[n] {
				out = append(out, n)
			}
		}
		return out
	}
	for _, r := range rules {
		out = append(out, r.Name)
	}
	return out
}
