package dsl

// ParseCost estimates how expensive a rule text is for gengine's ANTLR parser. The parser's
// prediction for a bracket (or call-argument) group is repeated for every arithmetic
// operator of the enclosing group, so the time and memory needed grow exponentially with
// the nesting depth of groups that sit in operator chains (measured: "( x0 + x0 + ( x0 + x0
// + ( ... ) ) )" takes 0.1 s at depth 6, 0.9 s at depth 9, 9 s at depth 12; a generated
// 730-byte return expression with 37 groups did not compile in 30 minutes and 33 GB).
// The estimate is calibrated to be roughly the compile time in milliseconds:
//
//	cost(group) = 1 + sum over nested groups k of m * cost(k)
//	m = max(2, number of binary arithmetic operators directly inside the group) if that
//	    number is >= 2 or either group belongs to a call, otherwise 1
//
// The whole text is one top-level group with m = 2.
func ParseCost(text string) float64 {
	type level struct {
		ops  int
		call bool
		kids []struct {
			c    float64
			call bool
		}
	}
	stack := []*level{{}}
	const (
		tNone = iota
		tAtom
		tClose
		tOther
	)
	prev := tNone
	prevIdent := false
	n := len(text)
	isWord := func(c byte) bool {
		return c == '_' || c == '@' || c == '.' || c >= '0' && c <= '9' || c >= 'a' && c <= 'z' || c >= 'A' && c <= 'Z' || c >= 0x80
	}
	close1 := func() {
		if len(stack) == 1 {
			return
		}
		g := stack[len(stack)-1]
		stack = stack[:len(stack)-1]
		c := 1.0
		for _, k := range g.kids {
			m := 1.0
			if g.ops >= 2 || k.call || g.call {
				m = 2
				if float64(g.ops) > m {
					m = float64(g.ops)
				}
			}
			c += m * k.c
			if c > 1e18 {
				c = 1e18
			}
		}
		p := stack[len(stack)-1]
		p.kids = append(p.kids, struct {
			c    float64
			call bool
		}{c, g.call})
	}
	for i := 0; i < n; {
		ch := text[i]
		switch {
		case ch == ' ' || ch == '\t' || ch == '\n' || ch == '\r':
			i++
			continue
		case ch == '"':
			j := i + 1
			for j < n && text[j] != '"' {
				j++
			}
			i = j + 1
			prev, prevIdent = tAtom, false
			continue
		case isWord(ch):
			j := i
			digit := ch >= '0' && ch <= '9'
			for j < n && (isWord(text[j]) || (digit && (text[j] == '+' || text[j] == '-') && j > i && (text[j-1] == 'e' || text[j-1] == 'E'))) {
				j++
			}
			i = j
			prev, prevIdent = tAtom, !digit
			continue
		case ch == '(':
			stack = append(stack, &level{call: prev == tAtom && prevIdent})
			prev, prevIdent = tOther, false
		case ch == ')':
			close1()
			prev, prevIdent = tClose, false
		case ch == ']':
			prev, prevIdent = tClose, false
		case ch == '*' || ch == '/' || ch == '+' || ch == '-':
			if (prev == tAtom || prev == tClose) && !(i+1 < n && text[i+1] == '=') {
				stack[len(stack)-1].ops++
			}
			prev, prevIdent = tOther, false
		default:
			prev, prevIdent = tOther, false
		}
		i++
	}
	for len(stack) > 1 {
		close1()
	}
	c := 1.0
	for _, k := range stack[0].kids {
		c += 2 * k.c
		if c > 1e18 {
			c = 1e18
		}
	}
	return c
}
