// Package dsl is an independent model of gengine's rule language: AST, pretty-printer
// with layout and position tracking, and helpers for type-directed generation. Nothing in
// here imports gengine.
package dsl

// Expression kinds.
const (
	KInt    = "int"
	KReal   = "real"
	KStr    = "str"
	KBool   = "bool"
	KAtName = "@name"
	KAtID   = "@id"
	KAtDesc = "@desc"
	KAtSal  = "@sal"
	KVar    = "var"  // Name = a | a.b | a.b.c
	KIndex  = "idx"  // Name[Key]   Key: KInt | KStr | KVar (simple name)
	KCall   = "call" // Name(Args)  Name = f | a.m | a.b.m
	KBin    = "bin"
	KNot    = "not" // !L  where L is an atom or is printed parenthesised
)

// Expr is an expression node.
type Expr struct {
	K    string  `json:"k"`
	Op   string  `json:"op,omitempty"`
	L    *Expr   `json:"l,omitempty"`
	R    *Expr   `json:"r,omitempty"`
	I    int64   `json:"i,omitempty"`
	F    float64 `json:"f,omitempty"`
	S    string  `json:"s,omitempty"`
	B    bool    `json:"b,omitempty"`
	Name string  `json:"name,omitempty"`
	Key  *Expr   `json:"key,omitempty"`
	Args []*Expr `json:"args,omitempty"`
	// Par is the number of redundant parentheses printed around this node.
	Par int `json:"par,omitempty"`
	// Fault marks the node as (the root of) the planted fault; the text names the class.
	Fault string `json:"fault,omitempty"`
}

// Statement kinds.
const (
	SAssign   = "assign"
	SIf       = "if"
	SFor      = "for"
	SForRange = "forrange"
	SBreak    = "break"
	SContinue = "continue"
	SCall     = "call"
	SConc     = "conc"
)

// ElseIf branch.
type ElseIf struct {
	Cond *Expr  `json:"cond"`
	Body *Block `json:"body"`
}

// Stmt is a statement node.
type Stmt struct {
	K       string   `json:"k"`
	Target  *Expr    `json:"target,omitempty"` // assign: KVar or KIndex
	AOp     string   `json:"aop,omitempty"`    // = := += -= *= /=
	Val     *Expr    `json:"val,omitempty"`
	Cond    *Expr    `json:"cond,omitempty"`
	Then    *Block   `json:"then,omitempty"`
	ElseIfs []ElseIf `json:"elseifs,omitempty"`
	Else    *Block   `json:"else,omitempty"`
	Init    *Stmt    `json:"init,omitempty"`
	Step    *Stmt    `json:"step,omitempty"`
	Body    *Block   `json:"body,omitempty"`
	KeyVar  string   `json:"keyvar,omitempty"`
	Coll    string   `json:"coll,omitempty"`
	Call    *Expr    `json:"call,omitempty"`
	Kids    []*Stmt  `json:"kids,omitempty"` // conc children: assign or call
	LoopID  int      `json:"loop,omitempty"`
	Fault   string   `json:"fault,omitempty"`
}

// Block is `statement* returnStmt?`.
type Block struct {
	Stmts  []*Stmt `json:"stmts,omitempty"`
	HasRet bool    `json:"hasret,omitempty"`
	Ret    *Expr   `json:"ret,omitempty"` // nil with HasRet: bare return
	// RetFault marks the return statement itself as the planted fault site.
	RetFault string `json:"retfault,omitempty"`
}

// Rule is one rule entity.
type Rule struct {
	Name    string `json:"name"`
	HasDesc bool   `json:"hasdesc,omitempty"`
	Desc    string `json:"desc,omitempty"`
	HasSal  bool   `json:"hassal,omitempty"`
	Sal     int64  `json:"sal,omitempty"`
	Body    *Block `json:"body"`
}

// ID is the rule's @id: its name read as a decimal integer, 0 if it is not one.
func (r *Rule) ID() int64 {
	s := r.Name
	if s == "" {
		return 0
	}
	neg := false
	i := 0
	if s[0] == '-' {
		neg = true
		i = 1
	}
	if i >= len(s) || len(s)-i > 18 {
		return 0
	}
	var v int64
	for ; i < len(s); i++ {
		c := s[i]
		if c < '0' || c > '9' {
			return 0
		}
		v = v*10 + int64(c-'0')
	}
	if neg {
		return -v
	}
	return v
}

// Helpers to build nodes.
func Int(v int64) *Expr        { return &Expr{K: KInt, I: v} }
func Real(v float64) *Expr     { return &Expr{K: KReal, F: v} }
func Str(s string) *Expr       { return &Expr{K: KStr, S: s} }
func Bool(b bool) *Expr        { return &Expr{K: KBool, B: b} }
func Var(n string) *Expr       { return &Expr{K: KVar, Name: n} }
func Bin(op string, l, r *Expr) *Expr { return &Expr{K: KBin, Op: op, L: l, R: r} }
func Not(e *Expr) *Expr        { return &Expr{K: KNot, L: e} }
func Call(n string, a ...*Expr) *Expr { return &Expr{K: KCall, Name: n, Args: a} }
func Index(n string, k *Expr) *Expr   { return &Expr{K: KIndex, Name: n, Key: k} }
func Assign(t *Expr, op string, v *Expr) *Stmt { return &Stmt{K: SAssign, Target: t, AOp: op, Val: v} }
func CallStmt(c *Expr) *Stmt   { return &Stmt{K: SCall, Call: c} }

// Prec is the binding strength of a binary operator (higher binds tighter).
func Prec(op string) int {
	switch op {
	case "*", "/":
		return 4
	case "+", "-":
		return 3
	case "==", "!=", "<", ">", "<=", ">=":
		return 2
	case "&&", "||":
		return 1
	}
	return 0
}

// IsMath reports whether e belongs to the mathExpression layer of the grammar (atoms,
// arithmetic over math operands). Only such nodes may be operands of arithmetic.
func IsMath(e *Expr) bool {
	switch e.K {
	case KBin:
		return Prec(e.Op) >= 3 && IsMath(e.L) && IsMath(e.R)
	case KNot:
		return false
	}
	return true
}

// IsAtom reports whether e is an expressionAtom.
func IsAtom(e *Expr) bool { return e.K != KBin && e.K != KNot }

// Walk visits every expression node.
func (e *Expr) Walk(f func(*Expr)) {
	if e == nil {
		return
	}
	f(e)
	e.L.Walk(f)
	e.R.Walk(f)
	e.Key.Walk(f)
	for _, a := range e.Args {
		a.Walk(f)
	}
}
