package dsl

import (
	"fmt"
	"strconv"
	"strings"
)

// Printer renders rules to DSL text. Parentheses are emitted only where the reference
// precedence / associativity (C01) requires them, plus each node's redundant ones; the
// layout (which whitespace / comment separates two tokens) is taken from Lay, so a
// printed text is a pure function of (AST, Lay). Line of the first and last token of
// every node is recorded.
type Printer struct {
	Lay   []byte
	li    int
	buf   strings.Builder
	line  int
	first bool
	lastB byte // the layout byte of the last gap
	Start map[interface{}]int // node (*Expr, *Stmt, *Block for its return, *Rule) -> 1-based line of first token
	Stop  map[interface{}]int // -> line of last token
	open  []interface{}
}

func NewPrinter(lay []byte) *Printer {
	return &Printer{Lay: lay, line: 1, first: true, Start: map[interface{}]int{}, Stop: map[interface{}]int{}}
}

func (p *Printer) String() string { return p.buf.String() }

func (p *Printer) gap() string {
	if len(p.Lay) == 0 {
		return " "
	}
	b := p.Lay[p.li%len(p.Lay)]
	p.li++
	p.lastB = b
	if b >= 100 {
		// the extended range: a tab or a CR LF line end as the only separator; keywords written
		// after such a gap change case (see tok)
		switch b % 10 {
		case 0:
			return "\t"
		case 1:
			return "\r\n"
		}
	}
	switch b % 10 {
	case 4:
		return "\n"
	case 5:
		return "  \t "
	case 6:
		return " // c " + strconv.Itoa(int(b)) + "\n"
	case 7:
		return "\n\n"
	case 8:
		return "\n    "
	}
	return " "
}

func (p *Printer) write(s string) {
	p.buf.WriteString(s)
	p.line += strings.Count(s, "\n")
}

// tok emits one token preceded by a layout gap.
func (p *Printer) tok(s string) {
	if !p.first {
		p.write(p.gap())
	}
	p.first = false
	for _, n := range p.open {
		if _, ok := p.Start[n]; !ok {
			p.Start[n] = p.line
		}
	}
	if p.lastB >= 100 && keywords[s] {
		// the keywords of the language are case insensitive
		switch (p.lastB / 10) % 3 {
		case 1:
			s = strings.ToUpper(s)
		case 2:
			s = strings.ToUpper(s[:1]) + s[1:]
		}
	}
	p.write(s)
	for _, n := range p.open {
		p.Stop[n] = p.line
	}
}

// intText renders an integer literal; after a gap of the extended layout range it may carry
// leading zeros (007, -010), which mean the same decimal number.
func (p *Printer) intText(v int64) string {
	s := strconv.FormatInt(v, 10)
	if len(p.Lay) == 0 {
		return s
	}
	if b := p.Lay[p.li%len(p.Lay)]; b >= 100 && b%10 >= 6 {
		z := strings.Repeat("0", 1+int(b%2))
		if s[0] == '-' {
			return "-" + z + s[1:]
		}
		return z + s
	}
	return s
}

var keywords = map[string]bool{"rule": true, "begin": true, "end": true, "salience": true, "if": true, "else": true, "for": true, "forRange": true,
	"break": true, "continue": true, "return": true, "conc": true, "true": true, "false": true}

// nl forces a line break (used between statements in the plain layout).
func (p *Printer) nl() {
	if len(p.Lay) == 0 {
		p.write("\n")
		p.first = true
	}
}

func (p *Printer) enter(n interface{}) { p.open = append(p.open, n) }
func (p *Printer) leave()              { p.open = p.open[:len(p.open)-1] }

// FormatReal prints a float64 in a form REAL_LITERAL accepts and ParseFloat reads back
// exactly.
func FormatReal(f float64) string {
	neg := ""
	if f < 0 || (f == 0 && 1/f < 0) {
		neg = "-"
		f = -f
	}
	var s string
	if f == float64(int64(f)) && f < 1e15 {
		s = strconv.FormatFloat(f, 'f', 1, 64)
	} else {
		s = strconv.FormatFloat(f, 'e', -1, 64)
		s = strings.Replace(s, "e+", "e", 1)
	}
	return neg + s
}

func (p *Printer) Expr(e *Expr) {
	p.enter(e)
	defer p.leave()
	for i := 0; i < e.Par; i++ {
		p.tok("(")
	}
	switch e.K {
	case KInt:
		p.tok(p.intText(e.I))
	case KReal:
		p.tok(FormatReal(e.F))
	case KStr:
		p.tok("\"" + e.S + "\"")
	case KBool:
		if e.B {
			p.tok("true")
		} else {
			p.tok("false")
		}
	case KAtName, KAtID, KAtDesc, KAtSal:
		p.tok(e.K)
	case KVar:
		p.tok(e.Name)
	case KIndex:
		p.tok(e.Name)
		p.tok("[")
		p.Expr(e.Key)
		p.tok("]")
	case KCall:
		p.tok(e.Name)
		p.tok("(")
		for i, a := range e.Args {
			if i > 0 {
				p.tok(",")
			}
			p.Expr(a)
		}
		p.tok(")")
	case KNot:
		p.tok("!")
		if IsAtom(e.L) && e.L.Par == 0 {
			p.Expr(e.L)
		} else if e.L.Par > 0 {
			p.Expr(e.L)
		} else {
			p.tok("(")
			p.Expr(e.L)
			p.tok(")")
		}
	case KBin:
		pr := Prec(e.Op)
		p.operand(e.L, childPrec(e.L) < pr)
		p.tok(e.Op)
		p.operand(e.R, childPrec(e.R) <= pr)
	default:
		panic("dsl: print: unknown expr kind " + e.K)
	}
	for i := 0; i < e.Par; i++ {
		p.tok(")")
	}
}

func childPrec(e *Expr) int {
	if e.K == KBin {
		return Prec(e.Op)
	}
	return 9
}

func (p *Printer) operand(e *Expr, need bool) {
	if need && e.Par == 0 {
		p.tok("(")
		p.Expr(e)
		p.tok(")")
		return
	}
	p.Expr(e)
}

func (p *Printer) Stmt(s *Stmt) {
	p.enter(s)
	defer p.leave()
	switch s.K {
	case SAssign:
		p.Expr(s.Target)
		p.tok(s.AOp)
		p.Expr(s.Val)
	case SIf:
		p.tok("if")
		p.Expr(s.Cond)
		p.tok("{")
		p.nl()
		p.Block(s.Then)
		p.tok("}")
		for i := range s.ElseIfs {
			p.tok("else")
			p.tok("if")
			p.Expr(s.ElseIfs[i].Cond)
			p.tok("{")
			p.nl()
			p.Block(s.ElseIfs[i].Body)
			p.tok("}")
		}
		if s.Else != nil {
			p.tok("else")
			p.tok("{")
			p.nl()
			p.Block(s.Else)
			p.tok("}")
		}
	case SFor:
		p.tok("for")
		p.Stmt(s.Init)
		p.tok(";")
		p.Expr(s.Cond)
		p.tok(";")
		p.Stmt(s.Step)
		p.tok("{")
		p.nl()
		p.Block(s.Body)
		p.tok("}")
	case SForRange:
		p.tok("forRange")
		p.tok(s.KeyVar)
		p.tok(":=")
		p.tok(s.Coll)
		p.tok("{")
		p.nl()
		p.Block(s.Body)
		p.tok("}")
	case SBreak:
		p.tok("break")
	case SContinue:
		p.tok("continue")
	case SCall:
		p.Expr(s.Call)
	case SConc:
		p.tok("conc")
		p.tok("{")
		p.nl()
		for _, k := range s.Kids {
			p.Stmt(k)
			p.nl()
		}
		p.tok("}")
	default:
		panic("dsl: print: unknown stmt kind " + s.K)
	}
}

func (p *Printer) Block(b *Block) {
	if b == nil {
		return
	}
	for _, s := range b.Stmts {
		p.Stmt(s)
		p.nl()
	}
	if b.HasRet {
		p.enter(b)
		p.tok("return")
		if b.Ret != nil {
			p.Expr(b.Ret)
		}
		p.leave()
		p.nl()
	}
}

func (p *Printer) Rule(r *Rule) {
	p.enter(r)
	p.tok("rule")
	p.tok("\"" + r.Name + "\"")
	if r.HasDesc {
		p.tok("\"" + r.Desc + "\"")
	}
	if r.HasSal {
		p.tok("salience")
		p.tok(strconv.FormatInt(r.Sal, 10))
	}
	p.tok("begin")
	p.nl()
	p.Block(r.Body)
	p.tok("end")
	p.leave()
	p.nl()
}

// PrintRules renders a text of several rules.
func PrintRules(rs []*Rule, lay []byte) (string, *Printer) {
	return PrintRulesLead(rs, lay, "")
}

// PrintRulesLead renders the rules after the given leading text (whitespace, blank lines,
// comment lines), which counts for the line numbers like any other text.
func PrintRulesLead(rs []*Rule, lay []byte, lead string) (string, *Printer) {
	p := NewPrinter(lay)
	p.write(lead)
	for _, r := range rs {
		p.Rule(r)
	}
	s := p.String()
	if !strings.HasSuffix(s, "\n") {
		s += "\n"
	}
	return s, p
}

// ExprString prints a single expression in the plain layout (for messages).
func ExprString(e *Expr) string {
	p := NewPrinter(nil)
	p.Expr(e)
	return p.String()
}

// CheckGrammar verifies the structural constraints the two-layer grammar imposes on an
// expression tree (generator soundness self-check): arithmetic operands are math
// expressions, index keys are literals or simple names.
func CheckGrammar(e *Expr) error {
	var err error
	e.Walk(func(n *Expr) {
		if err != nil {
			return
		}
		switch n.K {
		case KBin:
			if Prec(n.Op) >= 3 && (!IsMath(n.L) || !IsMath(n.R)) {
				err = fmt.Errorf("arithmetic %q has a non-math operand", n.Op)
			}
			if Prec(n.Op) == 0 {
				err = fmt.Errorf("unknown operator %q", n.Op)
			}
		case KIndex:
			if n.Key == nil || (n.Key.K != KInt && n.Key.K != KStr && !(n.Key.K == KVar && !strings.Contains(n.Key.Name, "."))) || n.Key.Par != 0 {
				err = fmt.Errorf("index key must be an integer, string or simple variable")
			}
			if n.Key != nil && n.Key.K == KStr && n.Key.S == "" {
				err = fmt.Errorf("empty string key")
			}
		}
	})
	return err
}
