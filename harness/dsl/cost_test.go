package dsl

import (
	"fmt"
	"testing"
)

func TestParseCost(t *testing.T) {
	nest := func(f func(string) string, d int) string {
		e := "x0"
		for i := 0; i < d; i++ {
			e = f(e)
		}
		return e
	}
	a := func(s string) string { return "( x0 * x0 + " + s + " )" }
	d := func(s string) string { return "( " + s + " + x0 )" }
	if c := ParseCost(nest(a, 12)); c < 4000 {
		t.Fatalf("chain depth 12: %v", c)
	}
	if c := ParseCost(nest(d, 12)); c > 100 {
		t.Fatalf("left nest depth 12: %v", c)
	}
	fmt.Println(ParseCost(nest(a, 6)), ParseCost(nest(a, 9)), ParseCost(nest(d, 12)), ParseCost(`x = f("a(((", 1) + 2`))
}
